// liqinstr inserts the simulator's seams into a scratch copy of osteele/liquid.
//
// It never touches /repo: the check wrapper rsyncs the current working tree to a
// scratch directory and runs liqinstr there. Edits are byte-offset text splices
// into the original source (the cmd/cover technique), all on the original line,
// so line numbers in the instrumented copy equal those of the original.
//
// Levels (per package, highest that compiles wins):
//
//	3  step points + seams (map order, clock, disk, sync) + shared-memory access records
//	2  step points + seams
//	0  original source
package main

import (
	"encoding/json"
	"flag"
	"fmt"
	"go/ast"
	"go/token"
	"go/types"
	"os"
	"os/exec"
	"path/filepath"
	"regexp"
	"sort"
	"strings"

	"golang.org/x/tools/go/packages"
)

const simrtPath = "verif.local/simrt"

type Site struct {
	ID   uint32 `json:"id"`
	File string `json:"file"`
	Line int    `json:"line"`
	Func string `json:"func"`
	Kind string `json:"kind"` // step | r | w | rm | wm | range | sync
	Expr string `json:"expr,omitempty"`
}

type Report struct {
	Sites              []Site         `json:"sites"`
	Levels             map[string]int `json:"levels"` // package path -> level achieved
	StepSites          int            `json:"step_sites"`
	AccessSites        int            `json:"access_sites"`
	MapRangeSites      int            `json:"map_range_sites"`
	MapKeysSites       int            `json:"map_keys_sites"`
	ClockSites         int            `json:"clock_sites"`
	FSSites            int            `json:"fs_sites"`
	SyncSites          int            `json:"sync_sites"`
	UncontrolledMap    []string       `json:"uncontrolled_map_sites"`
	UnmodelledSync     []string       `json:"unmodelled_sync"`
	UnrecordedLHS      int            `json:"unrecorded_lhs"`
	UninstrumentedPkgs []string       `json:"uninstrumented_packages"`
	DegradedPkgs       []string       `json:"degraded_packages"`
	Notes              []string       `json:"notes,omitempty"`
}

type edit struct {
	start, end int // end==start: insertion
	text       string
	seq        int
}

type fileInstr struct {
	pkg      *packages.Package
	file     *ast.File
	path     string
	rel      string
	src      []byte
	edits    []edit
	seq      int
	keepRefs map[string]bool // "pkg.Sym" expressions to keep imports used
	level    int
	captured map[types.Object]bool
	modPath  string
	usesRT   bool
}

var (
	report  Report
	nextID  uint32 = 1
	rootDir string
)

func main() {
	dir := flag.String("dir", "", "root of the scratch copy (a Go module)")
	simrtDir := flag.String("simrt", "", "directory of the simrt module")
	out := flag.String("out", "", "where to write the site table / report (JSON)")
	maxLevel := flag.Int("level", 4, "maximum instrumentation level (4 = 3 + rewrites that change a variable's type: reflect.MapIter)")
	flag.Parse()
	if *dir == "" || *simrtDir == "" || *out == "" {
		fmt.Fprintln(os.Stderr, "usage: liqinstr -dir D -simrt S -out F")
		os.Exit(2)
	}
	var err error
	rootDir, err = filepath.Abs(*dir)
	check(err)
	report.Levels = map[string]int{}

	cfg := &packages.Config{
		Mode: packages.NeedName | packages.NeedFiles | packages.NeedCompiledGoFiles | packages.NeedSyntax |
			packages.NeedTypes | packages.NeedTypesInfo | packages.NeedImports | packages.NeedModule,
		Dir: rootDir,
		Env: append(os.Environ(), "GOFLAGS=-mod=mod", "GOPROXY=off", "GOSUMDB=off"),
	}
	pkgs, err := packages.Load(cfg, "./...")
	check(err)
	if packages.PrintErrors(pkgs) > 0 {
		fmt.Fprintln(os.Stderr, "liqinstr: the tree does not type-check; cannot instrument")
		os.Exit(2)
	}
	sort.Slice(pkgs, func(i, j int) bool { return pkgs[i].PkgPath < pkgs[j].PkgPath })

	// go.mod: require + replace simrt
	gomod := filepath.Join(rootDir, "go.mod")
	mod, err := os.ReadFile(gomod)
	check(err)
	abs, _ := filepath.Abs(*simrtDir)
	mod = append(mod, []byte(fmt.Sprintf("\nrequire %s v0.0.0\nreplace %s => %s\n", simrtPath, simrtPath, abs))...)
	check(os.WriteFile(gomod, mod, 0o644))

	originals := map[string][]byte{}
	pkgLevel := map[string]int{}
	for _, p := range pkgs {
		pkgLevel[p.PkgPath] = *maxLevel
	}
	for attempt := 0; attempt < 8; attempt++ {
		report.Sites = nil
		nextID = 1
		report.StepSites, report.AccessSites, report.MapRangeSites, report.MapKeysSites = 0, 0, 0, 0
		report.ClockSites, report.FSSites, report.SyncSites, report.UnrecordedLHS = 0, 0, 0, 0
		report.UncontrolledMap, report.UnmodelledSync = nil, nil
		for _, p := range pkgs {
			for i, f := range p.Syntax {
				path := p.CompiledGoFiles[i]
				if _, ok := originals[path]; !ok {
					b, err := os.ReadFile(path)
					check(err)
					originals[path] = b
				}
				lvl := pkgLevel[p.PkgPath]
				if lvl == 0 {
					check(os.WriteFile(path, originals[path], 0o644))
					continue
				}
				fi := newFileInstr(p, f, path, originals[path], lvl)
				fi.run()
				check(os.WriteFile(path, fi.apply(), 0o644))
			}
		}
		bad := buildFailures()
		if len(bad) == 0 {
			break
		}
		progressed := false
		for _, p := range pkgs {
			rel, _ := filepath.Rel(rootDir, pkgDir(p))
			if bad[rel] != "" {
				switch pkgLevel[p.PkgPath] {
				case 4:
					pkgLevel[p.PkgPath] = 3
				case 3:
					pkgLevel[p.PkgPath] = 2
				default:
					pkgLevel[p.PkgPath] = 0
				}
				report.Notes = append(report.Notes, fmt.Sprintf("package %s: level lowered to %d after build error: %s", p.PkgPath, pkgLevel[p.PkgPath], bad[rel]))
				progressed = true
			}
		}
		if !progressed {
			fmt.Fprintf(os.Stderr, "liqinstr: build of the instrumented copy fails outside instrumented packages: %v\n", bad)
			os.Exit(2)
		}
	}
	for _, p := range pkgs {
		report.Levels[p.PkgPath] = pkgLevel[p.PkgPath]
		switch {
		case pkgLevel[p.PkgPath] == 0:
			report.UninstrumentedPkgs = append(report.UninstrumentedPkgs, p.PkgPath)
		case pkgLevel[p.PkgPath] < *maxLevel:
			report.DegradedPkgs = append(report.DegradedPkgs, p.PkgPath)
		}
	}
	b, _ := json.MarshalIndent(report, "", " ")
	check(os.WriteFile(*out, b, 0o644))
	fmt.Printf("liqinstr: %d step sites, %d access sites, %d map-range, %d MapKeys, %d clock, %d fs, %d sync; uncontrolled map sites %d; unmodelled sync %d; degraded %v; uninstrumented %v\n",
		report.StepSites, report.AccessSites, report.MapRangeSites, report.MapKeysSites, report.ClockSites, report.FSSites, report.SyncSites,
		len(report.UncontrolledMap), len(report.UnmodelledSync), report.DegradedPkgs, report.UninstrumentedPkgs)
}

func pkgDir(p *packages.Package) string {
	if len(p.CompiledGoFiles) > 0 {
		return filepath.Dir(p.CompiledGoFiles[0])
	}
	return rootDir
}

var errLine = regexp.MustCompile(`(?m)^([^\s:#][^:\n]*\.go):\d+`)

// buildFailures runs `go build ./...` in the copy; it returns dir(rel) -> first error line.
func buildFailures() map[string]string {
	cmd := exec.Command("go", "build", "./...")
	cmd.Dir = rootDir
	cmd.Env = append(os.Environ(), "GOFLAGS=-mod=mod", "GOPROXY=off", "GOSUMDB=off")
	out, err := cmd.CombinedOutput()
	if err == nil {
		return nil
	}
	bad := map[string]string{}
	for _, ln := range strings.Split(string(out), "\n") {
		if m := errLine.FindStringSubmatch(ln); m != nil {
			d := filepath.Dir(m[1])
			if filepath.IsAbs(d) {
				d, _ = filepath.Rel(rootDir, d)
			}
			d = filepath.Clean(d)
			if bad[d] == "" {
				bad[d] = ln
			}
		}
	}
	if len(bad) == 0 {
		bad["?"] = string(out)
	}
	return bad
}

func check(err error) {
	if err != nil {
		fmt.Fprintln(os.Stderr, "liqinstr:", err)
		os.Exit(2)
	}
}

func newFileInstr(p *packages.Package, f *ast.File, path string, src []byte, level int) *fileInstr {
	rel, _ := filepath.Rel(rootDir, path)
	fi := &fileInstr{pkg: p, file: f, path: path, rel: rel, src: src, level: level, keepRefs: map[string]bool{}}
	if p.Module != nil {
		fi.modPath = p.Module.Path
	}
	return fi
}

func (fi *fileInstr) off(p token.Pos) int { return fi.pkg.Fset.Position(p).Offset }
func (fi *fileInstr) text(n ast.Node) string {
	return string(fi.src[fi.off(n.Pos()):fi.off(n.End())])
}
func (fi *fileInstr) insert(at token.Pos, s string) {
	o := fi.off(at)
	fi.seq++
	fi.edits = append(fi.edits, edit{o, o, s, fi.seq})
	fi.usesRT = true
}
func (fi *fileInstr) replace(from, to token.Pos, s string) {
	fi.seq++
	fi.edits = append(fi.edits, edit{fi.off(from), fi.off(to), s, fi.seq})
	fi.usesRT = true
}

func (fi *fileInstr) apply() []byte {
	if !fi.usesRT {
		return fi.src
	}
	// import + keep-alive references; all on existing lines
	o := fi.off(fi.file.Name.End())
	fi.seq++
	fi.edits = append(fi.edits, edit{o, o, `; import simrt "` + simrtPath + `"`, -1})
	var keep []string
	for k := range fi.keepRefs {
		keep = append(keep, k)
	}
	sort.Strings(keep)
	tail := "\nvar _ = simrt.Step\n"
	for _, k := range keep {
		tail += "var _ = " + k + "\n"
	}
	es := fi.edits
	// apply from the end of the file backwards; at one offset replacements
	// (which extend to the right) go first, then insertions in reverse order of
	// creation so that the earliest-created insertion ends up leftmost.
	sort.SliceStable(es, func(i, j int) bool {
		if es[i].start != es[j].start {
			return es[i].start > es[j].start
		}
		ri, rj := es[i].end > es[i].start, es[j].end > es[j].start
		if ri != rj {
			return ri
		}
		return es[i].seq > es[j].seq
	})
	out := append([]byte(nil), fi.src...)
	for _, e := range es {
		out = append(out[:e.start], append([]byte(e.text), out[e.end:]...)...)
	}
	return append(out, tail...)
}

func (fi *fileInstr) newSite(pos token.Pos, fn, kind, expr string) uint32 {
	id := nextID
	nextID++
	if id >= 1<<16 {
		check(fmt.Errorf("too many sites"))
	}
	p := fi.pkg.Fset.Position(pos)
	report.Sites = append(report.Sites, Site{id, fi.rel, p.Line, fn, kind, expr})
	return id
}

// ---------------------------------------------------------------------------

func (fi *fileInstr) run() {
	info := fi.pkg.TypesInfo
	// captured variables: local variables referenced inside a function literal
	// that does not contain their declaration.
	fi.captured = map[types.Object]bool{}
	var lits []*ast.FuncLit
	ast.Inspect(fi.file, func(n ast.Node) bool {
		if n == nil {
			return true
		}
		if fl, ok := n.(*ast.FuncLit); ok {
			lits = append(lits, fl)
		}
		return true
	})
	for _, fl := range lits {
		ast.Inspect(fl.Body, func(n ast.Node) bool {
			id, ok := n.(*ast.Ident)
			if !ok {
				return true
			}
			v, ok := info.Uses[id].(*types.Var)
			if !ok || v.IsField() || v.Parent() == nil || v.Parent() == fi.pkg.Types.Scope() || v.Pkg() != fi.pkg.Types {
				return true
			}
			if v.Pos() < fl.Pos() || v.Pos() >= fl.End() {
				fi.captured[v] = true
			}
			return true
		})
	}

	// channel operations: which receives are of the two-value form, which sit in a select
	recv2 := map[*ast.UnaryExpr]bool{}
	inSelect := map[ast.Node]bool{}
	ast.Inspect(fi.file, func(n ast.Node) bool {
		switch x := n.(type) {
		case *ast.AssignStmt:
			if len(x.Lhs) == 2 && len(x.Rhs) == 1 {
				if u, ok := x.Rhs[0].(*ast.UnaryExpr); ok && u.Op == token.ARROW {
					recv2[u] = true
				}
			}
		case *ast.ValueSpec:
			if len(x.Names) == 2 && len(x.Values) == 1 {
				if u, ok := x.Values[0].(*ast.UnaryExpr); ok && u.Op == token.ARROW {
					recv2[u] = true
				}
			}
		case *ast.SelectStmt:
			for _, cl := range x.Body.List {
				if cc, ok := cl.(*ast.CommClause); ok && cc.Comm != nil {
					ast.Inspect(cc.Comm, func(m ast.Node) bool {
						if m != nil {
							inSelect[m] = true
						}
						return true
					})
				}
			}
		}
		return true
	})

	// whole-file expression rewrites (seams)
	ast.Inspect(fi.file, func(n ast.Node) bool {
		switch x := n.(type) {
		case *ast.RangeStmt:
			fi.rewriteRange(x)
		case *ast.GoStmt:
			if !fi.rewriteGo(x) {
				report.UnmodelledSync = append(report.UnmodelledSync, fi.where(x.Pos())+": go statement (function with results, variadic or more than 4 parameters)")
			}
		case *ast.SendStmt:
			if inSelect[x] {
				break
			}
			// ch <- v   =>   simrt.Send(ch, v)
			// (a replacement, not an insertion: the statement's step point is inserted at the same offset and must stay to its left)
			fi.replace(x.Pos(), x.Chan.End(), "simrt.Send("+fi.text(x.Chan))
			fi.replace(x.Arrow, x.Arrow+2, ", ")
			fi.insert(x.End(), ")")
			report.SyncSites++
		case *ast.SelectStmt:
			report.UnmodelledSync = append(report.UnmodelledSync, fi.where(x.Pos())+": select")
		case *ast.UnaryExpr:
			if x.Op == token.ARROW && !inSelect[x] {
				// <-ch   =>   simrt.Recv(ch)   (simrt.Recv2 for v, ok := <-ch)
				fn := "simrt.Recv("
				if recv2[x] {
					fn = "simrt.Recv2("
				}
				fi.replace(x.OpPos, x.OpPos+2, fn)
				fi.insert(x.X.End(), ")")
				report.SyncSites++
			}
		case *ast.CallExpr:
			fi.rewriteCall(x)
			if id, ok := x.Fun.(*ast.Ident); ok && id.Name == "close" && len(x.Args) == 1 {
				if _, isBuiltin := fi.pkg.TypesInfo.Uses[id].(*types.Builtin); isBuiltin {
					fi.replace(id.Pos(), id.End(), "simrt.Close")
					report.SyncSites++
				}
			}
		}
		return true
	})

	// statement-level instrumentation of every function body
	for _, d := range fi.file.Decls {
		fd, ok := d.(*ast.FuncDecl)
		if !ok || fd.Body == nil {
			continue
		}
		name := fd.Name.Name
		if fd.Recv != nil && len(fd.Recv.List) > 0 {
			name = recvName(fd.Recv.List[0].Type) + "." + name
		}
		if fd.Recv == nil && fd.Name.Name == "init" {
			continue
		}
		fi.funcBody(fd.Body, name, nil)
	}
	// function literals at package level (var initialisers)
	for _, d := range fi.file.Decls {
		if gd, ok := d.(*ast.GenDecl); ok {
			ast.Inspect(gd, func(n ast.Node) bool {
				if fl, ok := n.(*ast.FuncLit); ok {
					fi.funcBody(fl.Body, "pkgvar.func", fl)
					return false
				}
				return true
			})
		}
	}
}

func recvName(e ast.Expr) string {
	switch x := e.(type) {
	case *ast.StarExpr:
		return recvName(x.X)
	case *ast.Ident:
		return x.Name
	case *ast.IndexExpr:
		return recvName(x.X)
	case *ast.IndexListExpr:
		return recvName(x.X)
	}
	return "?"
}

func (fi *fileInstr) where(p token.Pos) string {
	pp := fi.pkg.Fset.Position(p)
	return fmt.Sprintf("%s:%d", fi.rel, pp.Line)
}

// funcBody instruments the statement lists of one function (not of nested
// function literals, which are found and instrumented with their own context).
func (fi *fileInstr) funcBody(body *ast.BlockStmt, name string, lit *ast.FuncLit) {
	fi.stmtList(body.List, name)
	// nested function literals anywhere in this body
	n := 0
	var walk func(node ast.Node)
	walk = func(node ast.Node) {
		ast.Inspect(node, func(c ast.Node) bool {
			if fl, ok := c.(*ast.FuncLit); ok {
				n++
				fi.funcBody(fl.Body, fmt.Sprintf("%s.func%d", name, n), fl)
				return false
			}
			return true
		})
	}
	walk(body)
}

func (fi *fileInstr) stmtList(list []ast.Stmt, fn string) {
	for _, s := range list {
		fi.stmt(s, fn, true)
	}
}

// stmt inserts the step point (and access records) before s when s sits
// directly in a statement list, then descends into nested lists.
func (fi *fileInstr) stmt(s ast.Stmt, fn string, inList bool) {
	if inList {
		id := fi.newSite(s.Pos(), fn, "step", "")
		report.StepSites++
		ins := fmt.Sprintf("simrt.Step(%d);", id)
		if fi.level >= 3 {
			ins += fi.records(s, fn)
		}
		fi.insert(s.Pos(), ins)
	}
	switch x := s.(type) {
	case *ast.BlockStmt:
		fi.stmtList(x.List, fn)
	case *ast.IfStmt:
		fi.stmtList(x.Body.List, fn)
		if x.Else != nil {
			fi.stmt(x.Else, fn, false)
		}
	case *ast.ForStmt:
		fi.stmtList(x.Body.List, fn)
	case *ast.RangeStmt:
		fi.stmtList(x.Body.List, fn)
	case *ast.SwitchStmt:
		fi.clauses(x.Body, fn)
	case *ast.TypeSwitchStmt:
		fi.clauses(x.Body, fn)
	case *ast.SelectStmt:
		fi.clauses(x.Body, fn)
	case *ast.LabeledStmt:
		fi.stmt(x.Stmt, fn, false)
	}
}

func (fi *fileInstr) clauses(b *ast.BlockStmt, fn string) {
	for _, c := range b.List {
		switch cc := c.(type) {
		case *ast.CaseClause:
			fi.stmtList(cc.Body, fn)
		case *ast.CommClause:
			fi.stmtList(cc.Body, fn)
		}
	}
}

// ---------------------------------------------------------------------------
// seams

func (fi *fileInstr) rewriteRange(rs *ast.RangeStmt) {
	info := fi.pkg.TypesInfo
	tv, ok := info.Types[rs.X]
	if !ok {
		return
	}
	if _, isMap := tv.Type.Underlying().(*types.Map); !isMap {
		if _, isChan := tv.Type.Underlying().(*types.Chan); isChan {
			report.UnmodelledSync = append(report.UnmodelledSync, fi.where(rs.Pos())+": range over channel")
		}
		return
	}
	id := fi.newSite(rs.X.Pos(), "", "range", fi.text(rs.X))
	fi.insert(rs.X.Pos(), fmt.Sprintf("simrt.RangeMap(%d, ", id))
	fi.insert(rs.X.End(), ")")
	report.MapRangeSites++
}

var fsFuncs = map[string]string{
	"os.ReadFile": "ReadFile", "io/ioutil.ReadFile": "ReadFile", "os.Open": "Open", "os.OpenFile": "OpenFile",
	"os.Stat": "Stat", "os.Lstat": "Lstat",
}
var clockFuncs = map[string]string{"time.Now": "Now", "time.Since": "Since", "time.Until": "Until"}

var syncMethods = map[string]string{
	"sync.Mutex.Lock": "MutexLock", "sync.Mutex.Unlock": "MutexUnlock", "sync.Mutex.TryLock": "MutexTryLock",
	"sync.RWMutex.Lock": "RWLock", "sync.RWMutex.Unlock": "RWUnlock", "sync.RWMutex.RLock": "RWRLock", "sync.RWMutex.RUnlock": "RWRUnlock",
	"sync.Once.Do":  "OnceDo",
	"sync.Pool.Get": "PoolGet", "sync.Pool.Put": "PoolPut",
	"sync.WaitGroup.Add": "WGAdd", "sync.WaitGroup.Done": "WGDone", "sync.WaitGroup.Wait": "WGWait",
}

// rewriteGo turns `go f(a, b)` into `simrt.Go2(f, a, b)`: the function value and the
// arguments are still evaluated by the spawning goroutine at the go statement; the call
// becomes a simulated task (or, outside the scheduler, is run when the spawner waits).
func (fi *fileInstr) rewriteGo(g *ast.GoStmt) bool {
	call := g.Call
	tv, ok := fi.pkg.TypesInfo.Types[call.Fun]
	if !ok || tv.IsType() || tv.IsBuiltin() {
		return false
	}
	sig, ok := tv.Type.Underlying().(*types.Signature)
	if !ok || sig.Results().Len() != 0 || sig.Variadic() || sig.Params().Len() > 4 || sig.Params().Len() != len(call.Args) {
		return false
	}
	fi.replace(g.Pos(), call.Fun.Pos(), fmt.Sprintf("simrt.Go%d(", len(call.Args)))
	if len(call.Args) == 0 {
		fi.replace(call.Lparen, call.Rparen+1, ")")
	} else {
		fi.replace(call.Lparen, call.Lparen+1, ", ")
	}
	report.SyncSites++
	return true
}

func (fi *fileInstr) rewriteCall(call *ast.CallExpr) {
	info := fi.pkg.TypesInfo
	fun := call.Fun
	switch ix := fun.(type) { // explicit instantiation: sync.OnceValue[int](f)
	case *ast.IndexExpr:
		fun = ix.X
	case *ast.IndexListExpr:
		fun = ix.X
	}
	sel, ok := fun.(*ast.SelectorExpr)
	if !ok {
		return
	}
	obj, ok := info.Uses[sel.Sel].(*types.Func)
	if !ok || obj.Pkg() == nil {
		return
	}
	sig := obj.Type().(*types.Signature)
	if sig.Recv() == nil {
		key := obj.Pkg().Path() + "." + obj.Name()
		if to, ok := fsFuncs[key]; ok {
			fi.keepRefs[fi.text(sel)] = true
			fi.replace(sel.Pos(), sel.End(), "simrt."+to)
			report.FSSites++
		} else if key == "runtime.GOMAXPROCS" || key == "runtime.NumCPU" {
			// how many processors there are is one more thing the simulator decides (the same in
			// every process of a run, whatever GOMAXPROCS the process really has)
			fi.keepRefs[fi.text(sel)] = true
			fi.replace(sel.Pos(), sel.End(), "simrt."+obj.Name())
			report.SyncSites++
		} else if to, ok := clockFuncs[key]; ok {
			fi.keepRefs[fi.text(sel)] = true
			fi.replace(sel.Pos(), sel.End(), "simrt."+to)
			report.ClockSites++
		} else if obj.Pkg().Path() == "maps" && (obj.Name() == "Keys" || obj.Name() == "Values" || obj.Name() == "All") {
			fi.keepRefs[fi.text(sel)+"[map[int]int]"] = true
			fi.replace(sel.Pos(), sel.End(), "simrt.Maps"+obj.Name())
			report.MapRangeSites++
		} else if obj.Pkg().Path() == "sync" && (obj.Name() == "OnceFunc" || obj.Name() == "OnceValue" || obj.Name() == "OnceValues") {
			fi.keepRefs[fi.text(sel)+map[string]string{"OnceFunc": "", "OnceValue": "[int]", "OnceValues": "[int, int]"}[obj.Name()]] = true
			fi.replace(sel.Pos(), sel.End(), "simrt."+obj.Name())
			report.SyncSites++
		} else if obj.Pkg().Path() == "sync/atomic" {
			report.SyncSites++ // handled at statement level (records)
		}
		return
	}
	// methods
	recv := sig.Recv().Type()
	if p, ok := recv.(*types.Pointer); ok {
		recv = p.Elem()
	}
	named, ok := recv.(*types.Named)
	if !ok || named.Obj().Pkg() == nil {
		return
	}
	key := named.Obj().Pkg().Path() + "." + named.Obj().Name() + "." + obj.Name()
	switch {
	case key == "reflect.Value.MapKeys":
		fi.insert(call.Pos(), "simrt.PermuteValues(")
		fi.insert(call.End(), ")")
		report.MapKeysSites++
	case key == "reflect.Value.MapRange":
		if fi.level >= 4 && fi.pure(sel.X) {
			// the result type becomes *simrt.MapIter (same methods): compiles unless the
			// iterator is passed on as a *reflect.MapIter, in which case level 3 is used
			fi.replace(call.Pos(), call.End(), "simrt.MapRange("+fi.text(sel.X)+")")
			report.MapKeysSites++
		} else {
			report.UncontrolledMap = append(report.UncontrolledMap, fi.where(call.Pos())+": reflect.Value.MapRange")
		}
	case syncMethods[key] != "":
		ptr, ok := fi.recvPtr(sel)
		if !ok {
			report.UnmodelledSync = append(report.UnmodelledSync, fi.where(call.Pos())+": "+key+" on a receiver that is not a plain path")
			return
		}
		if obj.Name() == "Do" || obj.Name() == "Put" || obj.Name() == "Add" {
			fi.replace(call.Pos(), call.Lparen+1, "simrt."+syncMethods[key]+"("+ptr+", ")
		} else {
			fi.replace(call.Pos(), call.Lparen+1, "simrt."+syncMethods[key]+"("+ptr)
		}
		report.SyncSites++
	case named.Obj().Pkg().Path() == "sync" && named.Obj().Name() == "Cond":
		report.UnmodelledSync = append(report.UnmodelledSync, fi.where(call.Pos())+": "+key)
	}
}

// recvPtr renders a pointer to the receiver the selection resolves to
// (following embedded fields), if sel.X is a side-effect-free path.
func (fi *fileInstr) recvPtr(sel *ast.SelectorExpr) (string, bool) {
	info := fi.pkg.TypesInfo
	if !fi.pure(sel.X) {
		return "", false
	}
	s := info.Selections[sel]
	if s == nil {
		return "", false
	}
	txt := fi.text(sel.X)
	t := info.Types[sel.X].Type
	idx := s.Index()
	for _, i := range idx[:len(idx)-1] {
		if p, ok := t.Underlying().(*types.Pointer); ok {
			t = p.Elem()
		}
		st, ok := t.Underlying().(*types.Struct)
		if !ok {
			return "", false
		}
		f := st.Field(i)
		txt += "." + f.Name()
		t = f.Type()
	}
	if _, isPtr := t.Underlying().(*types.Pointer); isPtr {
		return "(" + txt + ")", true
	}
	return "&(" + txt + ")", true
}

// ---------------------------------------------------------------------------
// access records

type recSet struct {
	fi    *fileInstr
	fn    string
	stmt  ast.Stmt
	items []string
	seen  map[string]bool
}

// declaredWithin: node mentions a variable declared by the statement itself
// (if/for/switch init); a record placed before the statement cannot name it.
func (r *recSet) declaredWithin(node ast.Node) bool {
	bad := false
	ast.Inspect(node, func(n ast.Node) bool {
		id, ok := n.(*ast.Ident)
		if !ok {
			return true
		}
		if v, ok := r.fi.pkg.TypesInfo.Uses[id].(*types.Var); ok && v.Pos() >= r.stmt.Pos() && v.Pos() < r.stmt.End() {
			bad = true
		}
		return true
	})
	return bad
}

func (r *recSet) add(kind string, node ast.Node, call string, expr string) {
	if r.declaredWithin(node) {
		return
	}
	pos := node.Pos()
	key := kind + "|" + expr
	if r.seen[key] {
		return
	}
	r.seen[key] = true
	id := r.fi.newSite(pos, r.fn, kind, expr)
	report.AccessSites++
	r.items = append(r.items, fmt.Sprintf(call, id))
}

// records renders the access records of statement s (its own expressions
// only: not nested statement lists, not function literal bodies).
func (fi *fileInstr) records(s ast.Stmt, fn string) string {
	r := &recSet{fi: fi, fn: fn, stmt: s, seen: map[string]bool{}}
	fi.stmtAccesses(s, r)
	if len(r.items) == 0 {
		return ""
	}
	return "if simrt.Acc { func() { defer simrt.Rec(); " + strings.Join(r.items, "; ") + " }() };"
}

func (fi *fileInstr) stmtAccesses(s ast.Stmt, r *recSet) {
	switch x := s.(type) {
	case *ast.ExprStmt:
		fi.reads(x.X, r)
	case *ast.AssignStmt:
		for _, e := range x.Rhs {
			fi.reads(e, r)
		}
		for _, e := range x.Lhs {
			if x.Tok == token.DEFINE {
				if id, ok := e.(*ast.Ident); ok && fi.pkg.TypesInfo.Defs[id] != nil {
					continue
				}
			}
			if x.Tok != token.ASSIGN && x.Tok != token.DEFINE {
				fi.reads(e, r) // op=
			}
			fi.write(e, r)
		}
	case *ast.IncDecStmt:
		fi.reads(x.X, r)
		fi.write(x.X, r)
	case *ast.ReturnStmt:
		for _, e := range x.Results {
			fi.reads(e, r)
		}
	case *ast.DeclStmt:
		if gd, ok := x.Decl.(*ast.GenDecl); ok {
			for _, sp := range gd.Specs {
				if vs, ok := sp.(*ast.ValueSpec); ok {
					for _, e := range vs.Values {
						fi.reads(e, r)
					}
				}
			}
		}
	case *ast.DeferStmt:
		fi.reads(x.Call, r)
	case *ast.GoStmt:
		fi.reads(x.Call, r)
	case *ast.IfStmt:
		if x.Init != nil {
			fi.stmtAccesses(x.Init, r)
		}
		fi.reads(x.Cond, r)
	case *ast.ForStmt:
		if x.Init != nil {
			fi.stmtAccesses(x.Init, r)
		}
		if x.Cond != nil {
			fi.reads(x.Cond, r)
		}
	case *ast.RangeStmt:
		fi.reads(x.X, r)
	case *ast.SwitchStmt:
		if x.Init != nil {
			fi.stmtAccesses(x.Init, r)
		}
		if x.Tag != nil {
			fi.reads(x.Tag, r)
		}
	case *ast.TypeSwitchStmt:
		if x.Init != nil {
			fi.stmtAccesses(x.Init, r)
		}
		fi.stmtAccesses(x.Assign, r)
	case *ast.LabeledStmt:
		fi.stmtAccesses(x.Stmt, r)
	}
}

func (fi *fileInstr) varOf(id *ast.Ident) *types.Var {
	info := fi.pkg.TypesInfo
	if o, ok := info.Uses[id].(*types.Var); ok {
		return o
	}
	if o, ok := info.Defs[id].(*types.Var); ok {
		return o
	}
	return nil
}

// sharedVar: a package-level variable of this module, or a captured local.
func (fi *fileInstr) sharedVar(v *types.Var) bool {
	if v == nil || v.IsField() || v.Pkg() == nil {
		return false
	}
	if v.Parent() == v.Pkg().Scope() {
		return fi.modPath != "" && strings.HasPrefix(v.Pkg().Path(), fi.modPath)
	}
	return fi.captured[v]
}

// pure: e is a side-effect-free path/arith expression that may be evaluated twice.
func (fi *fileInstr) pure(e ast.Expr) bool {
	info := fi.pkg.TypesInfo
	switch x := e.(type) {
	case *ast.Ident:
		return true
	case *ast.BasicLit:
		return true
	case *ast.ParenExpr:
		return fi.pure(x.X)
	case *ast.SelectorExpr:
		if id, ok := x.X.(*ast.Ident); ok {
			if _, isPkg := info.Uses[id].(*types.PkgName); isPkg {
				_, isVar := info.Uses[x.Sel].(*types.Var)
				return isVar
			}
		}
		if s := info.Selections[x]; s == nil || s.Kind() != types.FieldVal {
			return false
		}
		return fi.pure(x.X)
	case *ast.IndexExpr:
		if tv, ok := info.Types[x.X]; !ok || !tv.IsValue() {
			return false
		}
		return fi.pure(x.X) && fi.pure(x.Index)
	case *ast.StarExpr:
		return fi.pure(x.X)
	case *ast.BinaryExpr:
		switch x.Op {
		case token.ADD, token.SUB, token.MUL:
			return fi.pure(x.X) && fi.pure(x.Y)
		}
		return false
	case *ast.CallExpr:
		if id, ok := x.Fun.(*ast.Ident); ok && len(x.Args) == 1 {
			if b, ok := info.Uses[id].(*types.Builtin); ok && (b.Name() == "len" || b.Name() == "cap") {
				return fi.pure(x.Args[0])
			}
		}
		return false
	}
	return false
}

// sharedCapable: the location denoted by path e can be reached by another task:
// the path dereferences a pointer, slice or map, or is rooted at a shared variable.
func (fi *fileInstr) sharedCapable(e ast.Expr) bool {
	info := fi.pkg.TypesInfo
	switch x := e.(type) {
	case *ast.Ident:
		return fi.sharedVar(fi.varOf(x))
	case *ast.ParenExpr:
		return fi.sharedCapable(x.X)
	case *ast.StarExpr:
		return true
	case *ast.SelectorExpr:
		if id, ok := x.X.(*ast.Ident); ok {
			if _, isPkg := info.Uses[id].(*types.PkgName); isPkg {
				v, _ := info.Uses[x.Sel].(*types.Var)
				return fi.sharedVar(v)
			}
		}
		if s := info.Selections[x]; s != nil && s.Indirect() {
			return true
		}
		if tv, ok := info.Types[x.X]; ok {
			if _, isPtr := tv.Type.Underlying().(*types.Pointer); isPtr {
				return true
			}
		}
		return fi.sharedCapable(x.X)
	case *ast.IndexExpr:
		if tv, ok := info.Types[x.X]; ok {
			switch tv.Type.Underlying().(type) {
			case *types.Slice, *types.Pointer, *types.Map:
				return true
			}
		}
		return fi.sharedCapable(x.X)
	}
	return false
}

// pkgRooted: the path e starts at a package-level variable of this module (state
// that every goroutine of the process shares by construction).
func (fi *fileInstr) pkgRooted(e ast.Expr) bool {
	info := fi.pkg.TypesInfo
	for {
		switch x := e.(type) {
		case *ast.ParenExpr:
			e = x.X
		case *ast.StarExpr:
			e = x.X
		case *ast.IndexExpr:
			e = x.X
		case *ast.SelectorExpr:
			if id, ok := x.X.(*ast.Ident); ok {
				if _, isPkg := info.Uses[id].(*types.PkgName); isPkg {
					v, _ := info.Uses[x.Sel].(*types.Var)
					return v != nil && fi.sharedVar(v)
				}
			}
			e = x.X
		case *ast.Ident:
			v := fi.varOf(x)
			return v != nil && !v.IsField() && v.Pkg() != nil && v.Parent() == v.Pkg().Scope() && fi.sharedVar(v)
		default:
			return false
		}
	}
}

// wfn picks the write-record function: the P variants additionally tell the runtime
// that the location is rooted at package-level state.
func (fi *fileInstr) wfn(e ast.Expr, mapWrite bool) string {
	switch {
	case mapWrite && fi.pkgRooted(e):
		return "simrt.WMP"
	case mapWrite:
		return "simrt.WM"
	case fi.pkgRooted(e):
		return "simrt.WP"
	}
	return "simrt.W"
}

func (fi *fileInstr) addressable(e ast.Expr) bool {
	tv, ok := fi.pkg.TypesInfo.Types[e]
	return ok && tv.Addressable()
}

func (fi *fileInstr) isMap(e ast.Expr) bool {
	tv, ok := fi.pkg.TypesInfo.Types[e]
	if !ok || !tv.IsValue() {
		return false
	}
	_, m := tv.Type.Underlying().(*types.Map)
	return m
}

// reads collects read records for the unconditionally evaluated parts of e.
func (fi *fileInstr) reads(e ast.Expr, r *recSet) {
	info := fi.pkg.TypesInfo
	switch x := e.(type) {
	case nil:
	case *ast.Ident:
		if v, ok := info.Uses[x].(*types.Var); ok && fi.sharedVar(v) {
			r.add("r", x, "simrt.R(%d, &"+x.Name+")", x.Name)
		}
	case *ast.ParenExpr:
		fi.reads(x.X, r)
	case *ast.FuncLit:
	case *ast.BasicLit:
	case *ast.SelectorExpr:
		if id, ok := x.X.(*ast.Ident); ok {
			if _, isPkg := info.Uses[id].(*types.PkgName); isPkg {
				if v, ok := info.Uses[x.Sel].(*types.Var); ok && fi.sharedVar(v) {
					t := fi.text(x)
					r.add("r", x, "simrt.R(%d, &"+t+")", t)
				}
				return
			}
		}
		if s := info.Selections[x]; s != nil && s.Kind() == types.FieldVal && fi.pure(x) && fi.addressable(x) && fi.sharedCapable(x) {
			t := fi.text(x)
			r.add("r", x, "simrt.R(%d, &"+t+")", t)
		}
		fi.reads(x.X, r)
	case *ast.IndexExpr:
		if tv, ok := info.Types[x.X]; !ok || !tv.IsValue() {
			return // generic instantiation
		}
		if fi.isMap(x.X) {
			if fi.pure(x.X) {
				t := fi.text(x.X)
				r.add("rm", x, "simrt.RM(%d, "+t+")", t)
			}
		} else if fi.pure(x) && fi.addressable(x) && fi.sharedCapable(x) {
			t := fi.text(x)
			r.add("r", x, "simrt.R(%d, &"+t+")", t)
		}
		fi.reads(x.X, r)
		fi.reads(x.Index, r)
	case *ast.IndexListExpr:
	case *ast.SliceExpr:
		fi.reads(x.X, r)
		fi.reads(x.Low, r)
		fi.reads(x.High, r)
		fi.reads(x.Max, r)
	case *ast.StarExpr:
		if tv, ok := info.Types[x]; ok && tv.IsValue() && fi.pure(x.X) {
			t := fi.text(x.X)
			r.add("r", x, "simrt.R(%d, "+t+")", "*"+t)
		}
		fi.reads(x.X, r)
	case *ast.UnaryExpr:
		if x.Op == token.AND {
			// &x is not a read of x; but &T{...} evaluates its elements
			if cl, ok := x.X.(*ast.CompositeLit); ok {
				fi.reads(cl, r)
			}
			return
		}
		fi.reads(x.X, r)
	case *ast.BinaryExpr:
		fi.reads(x.X, r)
		if x.Op != token.LAND && x.Op != token.LOR {
			fi.reads(x.Y, r)
		}
	case *ast.TypeAssertExpr:
		fi.reads(x.X, r)
	case *ast.KeyValueExpr:
		fi.reads(x.Value, r)
	case *ast.CompositeLit:
		isStruct := false
		if tv, ok := info.Types[x]; ok {
			t := tv.Type.Underlying()
			if p, ok := t.(*types.Pointer); ok {
				t = p.Elem().Underlying()
			}
			_, isStruct = t.(*types.Struct)
		}
		for _, el := range x.Elts {
			if kv, ok := el.(*ast.KeyValueExpr); ok {
				if !isStruct {
					fi.reads(kv.Key, r)
				}
				fi.reads(kv.Value, r)
			} else {
				fi.reads(el, r)
			}
		}
	case *ast.CallExpr:
		fi.callAccesses(x, r)
	}
}

var readOnlyMethods = map[string]bool{"Len": true, "String": true, "Bytes": true, "Cap": true, "Available": true, "AvailableBuffer": true,
	"Front": true, "Back": true, "Size": true, "Buffered": true, "Err": true, "Text": true}
var mutableStd = map[string]bool{"bytes.Buffer": true, "strings.Builder": true, "container/list.List": true, "container/ring.Ring": true,
	"math/rand.Rand": true, "bufio.Writer": true, "bufio.Reader": true, "bufio.Scanner": true, "strings.Reader": true, "bytes.Reader": true,
	"text/tabwriter.Writer": true, "encoding/json.Encoder": true, "encoding/json.Decoder": true}

func (fi *fileInstr) callAccesses(call *ast.CallExpr, r *recSet) {
	info := fi.pkg.TypesInfo
	if tv, ok := info.Types[call.Fun]; ok && tv.IsType() {
		for _, a := range call.Args {
			fi.reads(a, r)
		}
		return
	}
	if id, ok := call.Fun.(*ast.Ident); ok {
		if b, ok := info.Uses[id].(*types.Builtin); ok {
			switch b.Name() {
			case "delete", "clear":
				if len(call.Args) > 0 && fi.isMap(call.Args[0]) && fi.pure(call.Args[0]) {
					t := fi.text(call.Args[0])
					r.add("wm", call, fi.wfn(call.Args[0], true)+"(%d, "+t+")", t)
				}
			case "copy":
				if len(call.Args) == 2 && fi.pure(call.Args[0]) {
					t := fi.text(call.Args[0])
					r.add("w", call, "simrt.W(%d, &("+t+")[0])", t+"[0]")
				}
			case "append":
				// append writes into the spare capacity of its first argument's backing array
				if len(call.Args) > 1 && fi.pure(call.Args[0]) {
					if tv, ok := info.Types[call.Args[0]]; ok {
						if _, isSlice := tv.Type.Underlying().(*types.Slice); isSlice {
							t := fi.text(call.Args[0])
							r.add("w", call.Args[0], "simrt.WSpare(%d, "+t+")", "append("+t+")")
						}
					}
				}
			case "new", "make":
				for _, a := range call.Args[1:] {
					fi.reads(a, r)
				}
				return
			}
			for _, a := range call.Args {
				fi.reads(a, r)
			}
			return
		}
	}
	if sel, ok := call.Fun.(*ast.SelectorExpr); ok {
		if f, ok := info.Uses[sel.Sel].(*types.Func); ok && f.Pkg() != nil {
			sig := f.Type().(*types.Signature)
			if sig.Recv() != nil {
				recv := sig.Recv().Type()
				if p, ok := recv.(*types.Pointer); ok {
					recv = p.Elem()
				}
				if named, ok := recv.(*types.Named); ok && named.Obj().Pkg() != nil {
					tn := named.Obj().Pkg().Path() + "." + named.Obj().Name()
					switch {
					case mutableStd[tn]:
						if ptr, ok := fi.recvPtr(sel); ok {
							if readOnlyMethods[f.Name()] {
								r.add("r", call, "simrt.R(%d, "+ptr+")", ptr)
							} else {
								r.add("w", call, "simrt.W(%d, "+ptr+")", ptr)
							}
						}
					case named.Obj().Pkg().Path() == "sync/atomic" || tn == "sync.Map":
						if ptr, ok := fi.recvPtr(sel); ok {
							r.add("sync", call, "simrt.AtomicOp(%d, "+ptr+")", ptr)
						} else {
							report.UnmodelledSync = append(report.UnmodelledSync, fi.where(call.Pos())+": "+tn+"."+f.Name()+" on a receiver that is not a plain path")
						}
					}
				}
			} else {
				key := f.Pkg().Path() + "." + f.Name()
				switch {
				case f.Pkg().Path() == "sync/atomic":
					if len(call.Args) > 0 && fi.pure(unamp(call.Args[0])) {
						t := fi.text(call.Args[0])
						r.add("sync", call, "simrt.AtomicOp(%d, "+t+")", t)
					} else {
						report.UnmodelledSync = append(report.UnmodelledSync, fi.where(call.Pos())+": "+key+" on an operand that is not a plain path")
					}
				case key == "sort.Strings" || key == "sort.Ints" || key == "sort.Float64s" || key == "sort.Slice" || key == "sort.SliceStable" ||
					key == "slices.Sort" || key == "slices.SortFunc" || key == "slices.SortStableFunc" || key == "slices.Reverse":
					if len(call.Args) > 0 && fi.pure(call.Args[0]) {
						if tv, ok := info.Types[call.Args[0]]; ok {
							if _, isSlice := tv.Type.Underlying().(*types.Slice); isSlice {
								t := fi.text(call.Args[0])
								r.add("w", call, "simrt.W(%d, &("+t+")[0])", t+"[0]")
							}
						}
					}
				}
			}
		}
	}
	fi.reads(call.Fun, r)
	for _, a := range call.Args {
		fi.reads(a, r)
	}
}

func unamp(e ast.Expr) ast.Expr {
	if u, ok := e.(*ast.UnaryExpr); ok && u.Op == token.AND {
		return u.X
	}
	return e
}

// write collects the write record for assignment target e (and reads of its parts).
func (fi *fileInstr) write(e ast.Expr, r *recSet) {
	info := fi.pkg.TypesInfo
	switch x := e.(type) {
	case *ast.ParenExpr:
		fi.write(x.X, r)
	case *ast.Ident:
		if x.Name == "_" {
			return
		}
		if fi.sharedVar(fi.varOf(x)) {
			r.add("w", x, fi.wfn(x, false)+"(%d, &"+x.Name+")", x.Name)
		}
	case *ast.SelectorExpr:
		if id, ok := x.X.(*ast.Ident); ok {
			if _, isPkg := info.Uses[id].(*types.PkgName); isPkg {
				if v, ok := info.Uses[x.Sel].(*types.Var); ok && fi.sharedVar(v) {
					t := fi.text(x)
					r.add("w", x, fi.wfn(x, false)+"(%d, &"+t+")", t)
				}
				return
			}
		}
		if fi.pure(x) && fi.addressable(x) {
			if fi.sharedCapable(x) {
				t := fi.text(x)
				r.add("w", x, fi.wfn(x, false)+"(%d, &"+t+")", t)
			}
		} else {
			report.UnrecordedLHS++
		}
		fi.reads(x.X, r)
	case *ast.IndexExpr:
		if fi.isMap(x.X) {
			if fi.pure(x.X) {
				t := fi.text(x.X)
				r.add("wm", x, fi.wfn(x.X, true)+"(%d, "+t+")", t)
			} else {
				report.UnrecordedLHS++
			}
		} else if fi.pure(x) && fi.addressable(x) {
			if fi.sharedCapable(x) {
				t := fi.text(x)
				r.add("w", x, fi.wfn(x, false)+"(%d, &"+t+")", t)
			}
		} else {
			report.UnrecordedLHS++
		}
		fi.reads(x.X, r)
		fi.reads(x.Index, r)
	case *ast.StarExpr:
		if fi.pure(x.X) {
			t := fi.text(x.X)
			r.add("w", x, fi.wfn(x, false)+"(%d, "+t+")", "*"+t)
		} else {
			report.UnrecordedLHS++
		}
		fi.reads(x.X, r)
	default:
		report.UnrecordedLHS++
	}
}
