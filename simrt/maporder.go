package simrt

import (
	"fmt"
	"iter"
	"reflect"
	"sort"
)

// Map-iteration policies. Any order is legal Go; the simulator picks one.
const (
	OrderNative  = iota // leave Go's own randomisation in place
	OrderAsc            // canonical ascending key order
	OrderDesc           // canonical descending
	OrderRotate         // ascending rotated by Param
	OrderShuffle        // seeded permutation, fresh per iteration (like Go)
)

var (
	mapMode  = OrderNative
	mapParam uint64
	mapCalls uint64 // iterations started under a controlled policy
)

// SetMapOrder selects the policy for all subsequent map iterations.
func SetMapOrder(mode int, param uint64) { mapMode, mapParam, mapCalls = mode, param, 0 }

// MapIterations reports how many controlled map iterations ran since SetMapOrder.
func MapIterations() uint64 { return mapCalls }

func kindClass(k reflect.Kind) int {
	switch k {
	case reflect.Bool:
		return 1
	case reflect.Int, reflect.Int8, reflect.Int16, reflect.Int32, reflect.Int64:
		return 2
	case reflect.Uint, reflect.Uint8, reflect.Uint16, reflect.Uint32, reflect.Uint64, reflect.Uintptr:
		return 3
	case reflect.Float32, reflect.Float64:
		return 4
	case reflect.String:
		return 5
	}
	return 6
}

// cmpValues is a TOTAL order on map keys: by value, then by type name (int(1)
// and int64(1) are distinct keys of a map[any]any).
func cmpValues(a, b reflect.Value) int {
	if c := cmpValues1(a, b); c != 0 {
		return c
	}
	for a.IsValid() && a.Kind() == reflect.Interface {
		a = a.Elem()
	}
	for b.IsValid() && b.Kind() == reflect.Interface {
		b = b.Elem()
	}
	if a.IsValid() && b.IsValid() && a.Type() != b.Type() {
		if a.Type().String() < b.Type().String() {
			return -1
		}
		return 1
	}
	return 0
}

func cmpValues1(a, b reflect.Value) int {
	for a.IsValid() && a.Kind() == reflect.Interface {
		a = a.Elem()
	}
	for b.IsValid() && b.Kind() == reflect.Interface {
		b = b.Elem()
	}
	if !a.IsValid() || !b.IsValid() {
		switch {
		case !a.IsValid() && !b.IsValid():
			return 0
		case !a.IsValid():
			return -1
		}
		return 1
	}
	ca, cb := kindClass(a.Kind()), kindClass(b.Kind())
	if ca != cb {
		if ca < cb {
			return -1
		}
		return 1
	}
	switch ca {
	case 1:
		x, y := a.Bool(), b.Bool()
		if x == y {
			return 0
		}
		if !x {
			return -1
		}
		return 1
	case 2:
		x, y := a.Int(), b.Int()
		if x < y {
			return -1
		} else if x > y {
			return 1
		}
		return 0
	case 3:
		x, y := a.Uint(), b.Uint()
		if x < y {
			return -1
		} else if x > y {
			return 1
		}
		return 0
	case 4:
		x, y := a.Float(), b.Float()
		if x < y {
			return -1
		} else if x > y {
			return 1
		}
		return 0
	case 5:
		x, y := a.String(), b.String()
		if x < y {
			return -1
		} else if x > y {
			return 1
		}
		return 0
	}
	x := fmt.Sprintf("%s|%v", a.Type(), a.Interface())
	y := fmt.Sprintf("%s|%v", b.Type(), b.Interface())
	if x < y {
		return -1
	} else if x > y {
		return 1
	}
	return 0
}

func splitmix(x uint64) uint64 {
	x += 0x9e3779b97f4a7c15
	x = (x ^ (x >> 30)) * 0xbf58476d1ce4e5b9
	x = (x ^ (x >> 27)) * 0x94d049bb133111eb
	return x ^ (x >> 31)
}

// permute reorders n canonically-sorted items in place according to the policy.
func permute(n int, swap func(i, j int)) {
	mapCalls++
	switch mapMode {
	case OrderAsc:
	case OrderDesc:
		for i, j := 0, n-1; i < j; i, j = i+1, j-1 {
			swap(i, j)
		}
	case OrderRotate:
		if n > 1 {
			r := int(mapParam % uint64(n))
			rev := func(i, j int) {
				for ; i < j; i, j = i+1, j-1 {
					swap(i, j)
				}
			}
			rev(0, r-1)
			rev(r, n-1)
			rev(0, n-1)
		}
	case OrderShuffle:
		s := splitmix(mapParam ^ (mapCalls * 0x2545f4914f6cdd1d))
		for i := n - 1; i > 0; i-- {
			s = splitmix(s)
			j := int(s % uint64(i+1))
			swap(i, j)
		}
	}
}

// KeysOf returns the keys of m in the order the current policy dictates.
func KeysOf[M ~map[K]V, K comparable, V any](m M) []K {
	keys := make([]K, 0, len(m))
	for k := range m {
		keys = append(keys, k)
	}
	if mapMode == OrderNative {
		return keys
	}
	rv := make([]reflect.Value, len(keys))
	for i := range keys {
		rv[i] = reflect.ValueOf(&keys[i]).Elem()
	}
	idx := make([]int, len(keys))
	for i := range idx {
		idx[i] = i
	}
	sort.SliceStable(idx, func(a, b int) bool { return cmpValues(rv[idx[a]], rv[idx[b]]) < 0 })
	out := make([]K, len(keys))
	for i, j := range idx {
		out[i] = keys[j]
	}
	permute(len(out), func(i, j int) { out[i], out[j] = out[j], out[i] })
	return out
}

// RangeMap replaces `range m` for a map m: same entries, policy-chosen order.
func RangeMap[M ~map[K]V, K comparable, V any](site uint32, m M) iter.Seq2[K, V] {
	id := mapID(m)
	return func(yield func(K, V) bool) {
		if accActive {
			accMap(site, id, false)
		}
		if mapMode == OrderNative {
			for k, v := range m {
				if !yield(k, v) {
					return
				}
			}
			return
		}
		for _, k := range KeysOf(m) {
			v, ok := m[k]
			if !ok {
				continue // deleted during iteration: must not be produced
			}
			if !yield(k, v) {
				return
			}
		}
	}
}

// PermuteValues replaces the result of reflect.Value.MapKeys.
func PermuteValues(vs []reflect.Value) []reflect.Value {
	if mapMode == OrderNative {
		return vs
	}
	sort.SliceStable(vs, func(a, b int) bool { return cmpValues(vs[a], vs[b]) < 0 })
	permute(len(vs), func(i, j int) { vs[i], vs[j] = vs[j], vs[i] })
	return vs
}

// MapIter replaces *reflect.MapIter (the result of reflect.Value.MapRange) with
// an iterator that visits the entries in the order the current policy dictates.
type MapIter struct {
	native *reflect.MapIter
	m      reflect.Value
	keys   []reflect.Value
	i      int
}

// MapRange replaces v.MapRange().
func MapRange(v reflect.Value) *MapIter {
	if mapMode == OrderNative {
		return &MapIter{native: v.MapRange()}
	}
	return &MapIter{m: v, keys: PermuteValues(v.MapKeys()), i: -1}
}

func (it *MapIter) Next() bool {
	if it.native != nil {
		return it.native.Next()
	}
	for it.i++; it.i < len(it.keys); it.i++ {
		if it.m.MapIndex(it.keys[it.i]).IsValid() { // deleted meanwhile: must not be produced
			return true
		}
	}
	return false
}

func (it *MapIter) Key() reflect.Value {
	if it.native != nil {
		return it.native.Key()
	}
	return it.keys[it.i]
}

func (it *MapIter) Value() reflect.Value {
	if it.native != nil {
		return it.native.Value()
	}
	return it.m.MapIndex(it.keys[it.i])
}

func (it *MapIter) Reset(v reflect.Value) {
	if mapMode == OrderNative {
		*it = MapIter{native: v.MapRange()}
		return
	}
	*it = MapIter{m: v, keys: PermuteValues(v.MapKeys()), i: -1}
}

// MapsKeys / MapsValues / MapsAll replace maps.Keys / maps.Values / maps.All.
func MapsKeys[M ~map[K]V, K comparable, V any](m M) iter.Seq[K] {
	return func(yield func(K) bool) {
		for k := range RangeMap(0, m) {
			if !yield(k) {
				return
			}
		}
	}
}

func MapsValues[M ~map[K]V, K comparable, V any](m M) iter.Seq[V] {
	return func(yield func(V) bool) {
		for _, v := range RangeMap(0, m) {
			if !yield(v) {
				return
			}
		}
	}
}

func MapsAll[M ~map[K]V, K comparable, V any](m M) iter.Seq2[K, V] { return RangeMap(0, m) }
