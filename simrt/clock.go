package simrt

import "time"

var (
	clockSet   bool
	clockNow   time.Time
	clockReads uint64
)

// SetClock pins the simulated clock; ClearClock returns to the real one.
func SetClock(t time.Time) { clockSet, clockNow = true, t }
func ClearClock()          { clockSet = false }

// ClockReads counts reads of the clock since the last ResetClockReads.
func ClockReads() uint64 { return clockReads }
func ResetClockReads()   { clockReads = 0 }

// Now replaces time.Now in repository code.
func Now() time.Time {
	clockReads++
	if clockSet {
		return clockNow
	}
	return time.Now()
}

// Since replaces time.Since.
func Since(t time.Time) time.Duration { return Now().Sub(t) }

// Until replaces time.Until.
func Until(t time.Time) time.Duration { return t.Sub(Now()) }
