package simrt

import (
	"sort"
	"unsafe"
)

// Acc is read by instrumented code to skip record construction when off.
var Acc bool
var accActive bool

var (
	leak bool // never true; makes recorded pointers escape so their targets live on the heap
	sink unsafe.Pointer
)

// A Conflict is two accesses to one location by different tasks, at least one
// a write, unordered by happens-before: a data race in the Go memory model.
type Conflict struct {
	Addr   uintptr `json:"-"`
	SiteA  uint32  `json:"site_a"`
	TaskA  int     `json:"task_a"`
	WriteA bool    `json:"write_a"`
	SiteB  uint32  `json:"site_b"`
	TaskB  int     `json:"task_b"`
	WriteB bool    `json:"write_b"`
	Map    bool    `json:"map"`
}

type rd struct {
	clock uint64
	site  uint32
}

type cell struct {
	wTask  int
	wClock uint64
	wSite  uint32
	reads  map[int]rd
}

var (
	shadow    map[uintptr]*cell
	conflicts []Conflict
	confSeen  map[[5]uint32]bool
	Accesses  uint64
)

func shadowReset() {
	accessLog = nil
	shadow = map[uintptr]*cell{}
	conflicts = nil
	confSeen = map[[5]uint32]bool{}
	syncClocks = map[unsafe.Pointer][]uint64{}
}

func shadowConflicts() []Conflict {
	out := append([]Conflict(nil), conflicts...)
	sort.SliceStable(out, func(i, j int) bool {
		if out[i].SiteA != out[j].SiteA {
			return out[i].SiteA < out[j].SiteA
		}
		return out[i].SiteB < out[j].SiteB
	})
	return out
}

func report(c Conflict) {
	b := func(x bool) uint32 {
		if x {
			return 1
		}
		return 0
	}
	k := [5]uint32{c.SiteA, c.SiteB, b(c.WriteA), b(c.WriteB), b(c.Map)}
	if confSeen[k] || len(conflicts) >= 64 {
		return
	}
	confSeen[k] = true
	conflicts = append(conflicts, c)
}

// AccessRec is one recorded access (only kept while LogAccesses is on).
type AccessRec struct {
	Task  int
	Step  int64 // the task's step count at the access
	Site  uint32
	Addr  uintptr
	Write bool
}

// LogAccesses makes RunTasks return the full access log (directed scheduling).
var LogAccesses bool
var accessLog []AccessRec

func vcAt(vc []uint64, i int) uint64 {
	if i < len(vc) {
		return vc[i]
	}
	return 0
}

func access(site uint32, addr uintptr, write, isMap bool) {
	t := curTask
	if t == nil || addr == 0 {
		return
	}
	Accesses++
	if LogAccesses && len(accessLog) < 400000 {
		accessLog = append(accessLog, AccessRec{t.id, t.steps, site, addr, write})
	}
	c := shadow[addr]
	if c == nil {
		c = &cell{}
		shadow[addr] = c
	}
	if c.wTask != 0 && c.wTask != t.id && c.wClock > vcAt(t.vc, c.wTask) {
		report(Conflict{addr, c.wSite, c.wTask, true, site, t.id, write, isMap})
	}
	if write {
		for u, r := range c.reads {
			if u != t.id && r.clock > vcAt(t.vc, u) {
				report(Conflict{addr, r.site, u, false, site, t.id, true, isMap})
			}
		}
		c.wTask, c.wClock, c.wSite = t.id, t.vc[t.id], site
		c.reads = nil
	} else {
		if c.reads == nil {
			c.reads = map[int]rd{}
		}
		c.reads[t.id] = rd{t.vc[t.id], site}
	}
}

// R records a read of *p by the current task.
func R[T any](site uint32, p *T) {
	if leak {
		sink = unsafe.Pointer(p)
	}
	if accActive && unsafe.Sizeof(*p) != 0 {
		access(site, uintptr(unsafe.Pointer(p)), false, false)
	}
}

// W records a write of *p by the current task.
func W[T any](site uint32, p *T) {
	if leak {
		sink = unsafe.Pointer(p)
	}
	if accActive && unsafe.Sizeof(*p) != 0 {
		access(site, uintptr(unsafe.Pointer(p)), true, false)
	}
}

// mapID is the identity of a map (its header pointer). The pointer is made to
// escape: a non-escaping small map lives on the goroutine STACK, and stack memory
// is recycled between goroutines when stacks grow, which would fake a conflict.
func mapID[M ~map[K]V, K comparable, V any](m M) uintptr {
	p := *(*unsafe.Pointer)(unsafe.Pointer(&m))
	if leak {
		sink = p
	}
	return uintptr(p)
}

func accMap(site uint32, id uintptr, write bool) { access(site, id, write, true) }

// RM records a read of (some element of) map m; WM a write (insert, update, delete, clear).
func RM[M ~map[K]V, K comparable, V any](site uint32, m M) {
	id := mapID(m)
	if accActive {
		access(site, id, false, true)
	}
}
func WM[M ~map[K]V, K comparable, V any](site uint32, m M) {
	id := mapID(m)
	if accActive {
		access(site, id, true, true)
	}
}

// RAddr / WAddr record accesses to a location known only by address
// (reflect-based accesses and std-lib objects mutated through methods).
func RAddr(site uint32, p unsafe.Pointer) {
	if accActive {
		access(site, uintptr(p), false, false)
	}
}
func WAddr(site uint32, p unsafe.Pointer) {
	if accActive {
		access(site, uintptr(p), true, false)
	}
}

// Rec is deferred around record construction so that evaluating an address
// (nil pointer, index out of range) can never change the program's behaviour.
func Rec() { _ = recover() }

// WSpare records the write that append(s, ...) performs when s has spare
// capacity: the slot just past len(s) of the shared backing array.
func WSpare[S ~[]E, E any](site uint32, s S) {
	if cap(s) > len(s) {
		p := &s[: len(s)+1 : len(s)+1][len(s)]
		if leak {
			sink = unsafe.Pointer(p)
		}
		if accActive && unsafe.Sizeof(*p) != 0 {
			access(site, uintptr(unsafe.Pointer(p)), true, false)
		}
	}
}

// WP / WMP: a write to a location rooted at a package-level variable. Besides the
// ordinary record, the write is checked on its own: package-level state is shared by
// every goroutine by construction, so a write to it at parse/render time that is not
// under a modelled lock, inside a sync.Once or an atomic is a data race as soon as two
// goroutines perform the same operation (which the property allows) -- reported even
// if no second task happened to touch the location in this schedule.
func WP[T any](site uint32, p *T) {
	W(site, p)
	if accActive && unsafe.Sizeof(*p) != 0 {
		unprotected(site, uintptr(unsafe.Pointer(p)), false)
	}
}

func WMP[M ~map[K]V, K comparable, V any](site uint32, m M) {
	WM(site, m)
	if accActive {
		unprotected(site, mapID(m), true)
	}
}

func unprotected(site uint32, addr uintptr, isMap bool) {
	t := curTask
	if t == nil || t.locks > 0 || t.inOnce > 0 {
		return
	}
	report(Conflict{Addr: addr, SiteA: site, TaskA: t.id, WriteA: true, SiteB: site, TaskB: 0, WriteB: true, Map: isMap})
}
