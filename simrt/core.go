// Package simrt is the runtime half of the simulator: the instrumented scratch
// copy of osteele/liquid calls into it at every statement (Step), at every
// controlled source of nondeterminism (map order, clock, disk, sync) and at
// every recorded shared-memory access. With nothing configured every entry
// point behaves exactly like the operation it replaced.
package simrt

// MaxSites bounds the site table (liqinstr refuses to emit more).
const MaxSites = 1 << 16

// Hits counts executions per step site (coverage / reach probes).
var Hits [MaxSites]uint32

// Steps counts executed step points since the last ResetCounters.
var Steps uint64

// schedActive is true while a Scheduler run is in progress.
var schedActive bool

// SimProcs is what repository code is told when it asks for runtime.GOMAXPROCS(0) or
// runtime.NumCPU(): a constant of the simulation, not a property of the machine.
var SimProcs = 4

func GOMAXPROCS(n int) int { return SimProcs }
func NumCPU() int          { return SimProcs }

// Scheduling reports whether a scheduled run is in progress.
func Scheduling() bool { return schedActive }

// Fuel, when positive, is the number of step points the current call may still
// execute; reaching zero panics with ErrFuel (a deterministic guard against
// generated programs that run exponentially long). Ignored under the scheduler,
// where per-task step budgets do the same job.
var Fuel int64

// FuelOuts counts how often the fuel ran out (the panic value may be re-wrapped by the
// code it passes through, so the count is kept here).
var FuelOuts int

// ErrFuel is the panic value of an exhausted Fuel.
var ErrFuel = errFuel{}

type errFuel struct{}

func (errFuel) Error() string { return "simrt: step fuel exhausted" }

// Step is inserted before every statement of repository code.
func Step(site uint32) {
	Hits[site]++
	Steps++
	if schedActive {
		schedStep(site)
	} else if Fuel > 0 {
		Fuel--
		if Fuel == 0 {
			FuelOuts++
			panic(ErrFuel)
		}
	}
}

// ResetCounters zeroes Hits and Steps.
func ResetCounters() {
	Hits = [MaxSites]uint32{}
	Steps = 0
}
