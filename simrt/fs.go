package simrt

import (
	"io/fs"
	"os"
)

// FSCall is one file-system call made by repository code.
type FSCall struct {
	Op, Path string
	Injected bool
}

var (
	fsLog   []FSCall
	fsFault map[int]error    // call index -> error to return instead of doing the call
	fsPath  map[string]error // path -> error for every call on that path
	fsOn    bool
)

// FSBeginPath is FSBegin with path-sticky faults: every call on a listed path fails.
func FSBeginPath(fault map[string]error) { fsLog, fsFault, fsPath, fsOn = nil, nil, fault, true }

// FSBegin starts logging file-system calls; fault maps a call index to the
// errno-style error that call must fail with (wrapped in *fs.PathError).
func FSBegin(fault map[int]error) { fsLog, fsFault, fsPath, fsOn = nil, fault, nil, true }

// FSEnd stops logging and returns the calls seen.
func FSEnd() []FSCall { l := fsLog; fsLog, fsFault, fsPath, fsOn = nil, nil, nil, false; return l }

func fsEnter(op, path string) error {
	if !fsOn {
		return nil
	}
	i := len(fsLog)
	if e, ok := fsFault[i]; ok {
		fsLog = append(fsLog, FSCall{op, path, true})
		return &fs.PathError{Op: op, Path: path, Err: e}
	}
	if e, ok := fsPath[path]; ok {
		fsLog = append(fsLog, FSCall{op, path, true})
		return &fs.PathError{Op: op, Path: path, Err: e}
	}
	fsLog = append(fsLog, FSCall{op, path, false})
	return nil
}

// ReadFile replaces os.ReadFile / ioutil.ReadFile.
func ReadFile(name string) ([]byte, error) {
	if err := fsEnter("open", name); err != nil {
		return nil, err
	}
	return os.ReadFile(name)
}

// Open replaces os.Open.
func Open(name string) (*os.File, error) {
	if err := fsEnter("open", name); err != nil {
		return nil, err
	}
	return os.Open(name)
}

// OpenFile replaces os.OpenFile.
func OpenFile(name string, flag int, perm os.FileMode) (*os.File, error) {
	if err := fsEnter("open", name); err != nil {
		return nil, err
	}
	return os.OpenFile(name, flag, perm)
}

// Stat replaces os.Stat.
func Stat(name string) (os.FileInfo, error) {
	if err := fsEnter("stat", name); err != nil {
		return nil, err
	}
	return os.Stat(name)
}

// Lstat replaces os.Lstat.
func Lstat(name string) (os.FileInfo, error) {
	if err := fsEnter("lstat", name); err != nil {
		return nil, err
	}
	return os.Lstat(name)
}
