package simrt

import (
	"fmt"
	"reflect"
	"runtime/debug"
	"sync"
	"unsafe"
)

// A Seg is one scheduling decision as executed: task Task ran Steps step
// points and stopped at site Site (0 if it finished) for reason Why.
type Seg struct {
	Task  int    `json:"t"`
	Steps int64  `json:"n"`
	Site  uint32 `json:"s,omitempty"`
	Why   string `json:"w,omitempty"` // "", "done", "blocked", "budget"
}

// A Chooser decides which runnable task runs next and for how many steps.
// It is the only source of interleaving; it must be a pure function of its
// own seeded state and its arguments.
type Chooser func(runnable []int, lastTask int, lastSite uint32) (task int, quantum int64)

type task struct {
	id       int
	gate     chan struct{}
	quantum  int64
	syncQ    int64 // >0: yield after this many more synchronisation operations
	untilObj unsafe.Pointer // != nil: syncQ starts (at afterK) once an operation on this object is performed
	afterK   int64
	steps    int64
	budget   int64
	done     bool
	blocked  bool
	stalled  bool // blocked with no step made; waits for another task's progress
	overrun  bool
	lastSite uint32
	vc       []uint64
	panicVal any
	pending  []unsafe.Pointer // objects of atomic ops to re-synchronise on at the next step
	locks    int              // modelled exclusive locks currently held
	inOnce   int              // depth of sync.Once bodies being executed
}

// Result of one scheduled run.
type RunResult struct {
	Trace     []Seg
	Steps     []int64 // per task
	Switches  int
	Deadlock  bool
	Overrun   []int // tasks that exceeded their step budget (never resumed)
	Panics    map[int]string
	Conflicts []Conflict
	Spawned   int // tasks created by go statements of repository code during the run
	Log       []AccessRec // when LogAccesses
}

var (
	curTask  *task
	schedBk  chan struct{}
	allTasks []*task
)

func schedStep(site uint32) {
	t := curTask
	t.steps++
	t.lastSite = site
	t.quantum--
	if len(t.pending) > 0 {
		for _, o := range t.pending {
			SyncAcquire(o)
			SyncRelease(o)
		}
		t.pending = t.pending[:0]
	}
	if t.steps > t.budget {
		t.overrun = true
		yield(t) // never resumed
	}
	if t.quantum <= 0 {
		yield(t)
	}
}

func yield(t *task) {
	schedBk <- struct{}{}
	<-t.gate
}

// blockYield is called by a modelled primitive that cannot proceed.
func blockYield() {
	t := curTask
	t.blocked = true
	yield(t)
	t.blocked = false
}

// RunTasks executes fns as simulated tasks 1..n under choose. Exactly one
// task is runnable at any instant; all interleaving comes from choose.
// budget[i] bounds the steps of task i+1. Access recording is on for the run.
func RunTasks(fns []func(), budget []int64, choose Chooser) RunResult {
	n := len(fns)
	old := debug.SetGCPercent(-1) // no heap address is reused during a run
	defer debug.SetGCPercent(old)
	shadowReset()
	mainVC := make([]uint64, n+1)
	mainVC[0] = 1
	schedBk = make(chan struct{})
	finish := make(chan struct{})
	finishCh = finish
	allTasks = make([]*task, n)
	res := RunResult{Panics: map[int]string{}}
	for i := range fns {
		t := &task{id: i + 1, gate: make(chan struct{}), budget: budget[i], vc: append([]uint64(nil), mainVC...)}
		t.vc[t.id] = 1
		allTasks[i] = t
		startTask(t, fns[i], finish)
	}
	wgCount = map[*sync.WaitGroup]int{}
	PrevSyncObj, NextUntilObj, NextSyncQuantum = nil, nil, 0
	unbufSends, closedChans = map[unsafe.Pointer][]*pendSend{}, map[unsafe.Pointer]bool{}
	schedActive, Acc, accActive = true, true, true
	last, lastSite := 0, uint32(0)
	for {
		// A task that blocked without making a step cannot get further until some other
		// task has made progress: it is not offered to the chooser until then (a policy that
		// insists on one task -- highest priority, "run to completion" -- would otherwise
		// spin on it and look like a deadlock).
		var runnable []int
		live := 0
		for _, t := range allTasks {
			if !t.done && !t.overrun {
				live++
				if !t.stalled {
					runnable = append(runnable, t.id)
				}
			}
		}
		if len(runnable) == 0 {
			if live > 0 {
				res.Deadlock = true // every live task waits for a primitive only another waiting task can release
			}
			break
		}
		id, q := choose(runnable, last, lastSite)
		ok := false
		for _, r := range runnable {
			if r == id {
				ok = true
			}
		}
		if !ok {
			id = runnable[0]
		}
		if q < 1 {
			q = 1
		}
		t := allTasks[id-1]
		before := t.steps
		t.quantum = q
		if NextUntilObj != nil {
			t.untilObj, t.afterK, t.syncQ = NextUntilObj, NextSyncQuantum, 0
		} else {
			t.untilObj, t.syncQ = nil, NextSyncQuantum
		}
		NextSyncQuantum, NextUntilObj = 0, nil
		curTask = t
		t.gate <- struct{}{}
		<-schedBk
		seg := Seg{Task: id, Steps: t.steps - before, Site: t.lastSite}
		switch {
		case t.done:
			seg.Why, seg.Site = "done", 0
		case t.overrun:
			seg.Why = "budget"
		case t.blocked:
			seg.Why = "blocked"
		}
		if t.blocked && seg.Steps == 0 {
			t.stalled = true
		} else {
			for _, o := range allTasks {
				o.stalled = false
			}
		}
		if id != last && last != 0 {
			res.Switches++
		}
		res.Trace = append(res.Trace, seg)
		last, lastSite = id, t.lastSite
	}
	schedActive, Acc, accActive = false, false, false
	curTask = nil
	res.Steps = make([]int64, len(allTasks))
	res.Spawned = len(allTasks) - n
	for i, t := range allTasks {
		res.Steps[i] = t.steps
		if t.overrun {
			res.Overrun = append(res.Overrun, t.id)
		}
		if t.panicVal != nil {
			res.Panics[t.id] = fmt.Sprint(t.panicVal)
		}
	}
	if !res.Deadlock && len(res.Overrun) == 0 {
		close(finish) // otherwise stuck tasks stay parked for the life of the process
	}
	res.Conflicts = shadowConflicts()
	if LogAccesses {
		res.Log = accessLog
	}
	shadowReset()
	return res
}

var finishCh chan struct{}

// startTask parks a goroutine that will run fn as task t when first scheduled.
func startTask(t *task, fn func(), finish chan struct{}) {
	go func() {
		<-t.gate
		func() {
			defer func() {
				if r := recover(); r != nil {
					t.panicVal = r
				}
			}()
			fn()
		}()
		t.done = true
		schedBk <- struct{}{}
		<-finish // keep the goroutine (and its stack) alive until the run ends
	}()
}

// ---- go statements and WaitGroups ----
//
// Under the scheduler `go f(x)` creates one more simulated task (the spawner's clock is
// inherited: everything before the go statement happens before the new task). Outside
// the scheduler exactly one goroutine may run repository code (the simulator's state is
// not shared), so the call is queued and run when the spawner waits on a WaitGroup, or
// when the guarded library call returns (DrainGo): one legal schedule, the same in every
// process.

// ChildBudget bounds the steps of a spawned task.
var ChildBudget int64 = 5_000_000

var pendingGo []func()

func spawn(fn func()) {
	if !schedActive || curTask == nil {
		pendingGo = append(pendingGo, fn)
		return
	}
	p := curTask
	id := len(allTasks) + 1
	t := &task{id: id, gate: make(chan struct{}), budget: ChildBudget, vc: append([]uint64(nil), p.vc...)}
	for len(t.vc) <= id {
		t.vc = append(t.vc, 0)
	}
	t.vc[id] = 1
	p.vc[p.id]++
	allTasks = append(allTasks, t)
	startTask(t, fn, finishCh)
	syncPoint(nil)
}

// DrainGo runs the calls queued by go statements outside the scheduler (and whatever
// they queue in turn). The harness calls it before a guarded library call returns.
func DrainGo() {
	for len(pendingGo) > 0 {
		fn := pendingGo[0]
		pendingGo = pendingGo[1:]
		fn()
	}
}

func Go0(f func())                        { spawn(f) }
func Go1[A any](f func(A), a A)           { spawn(func() { f(a) }) }
func Go2[A, B any](f func(A, B), a A, b B) { spawn(func() { f(a, b) }) }
func Go3[A, B, C any](f func(A, B, C), a A, b B, c C) {
	spawn(func() { f(a, b, c) })
}
func Go4[A, B, C, D any](f func(A, B, C, D), a A, b B, c C, d D) {
	spawn(func() { f(a, b, c, d) })
}

var wgCount = map[*sync.WaitGroup]int{}

func WGAdd(wg *sync.WaitGroup, n int) {
	wgCount[wg] += n
	if wgCount[wg] < 0 {
		panic("sync: negative WaitGroup counter")
	}
	if n < 0 {
		SyncRelease(unsafe.Pointer(wg))
		syncPoint(unsafe.Pointer(wg))
	}
}

func WGDone(wg *sync.WaitGroup) { WGAdd(wg, -1) }

func WGWait(wg *sync.WaitGroup) {
	if !schedActive || curTask == nil {
		for wgCount[wg] > 0 {
			if len(pendingGo) == 0 {
				panic(ErrDeadlock)
			}
			fn := pendingGo[0]
			pendingGo = pendingGo[1:]
			fn()
		}
		return
	}
	for wgCount[wg] > 0 {
		blockYield()
	}
	SyncAcquire(unsafe.Pointer(wg))
	syncPoint(unsafe.Pointer(wg))
}

// ---- channels ----
//
// Receive, send and close are modelled (select and range-over-channel are not: C04 then
// exits 2). A task never blocks its goroutine inside a real channel operation: buffered
// and closed channels are polled, an unbuffered send is parked in a table until a receiver
// takes it. Outside the scheduler a blocked operation lets the queued goroutines run; if
// none is left the pattern needs two goroutines alive at once, which the single-goroutine
// mode cannot provide: Unsupported is set and the harness ends the run with exit 2.

// Unsupported, when non-empty, says why the run cannot give a verdict.
var Unsupported string

type pendSend struct {
	v     any
	taken bool
}

var unbufSends = map[unsafe.Pointer][]*pendSend{}
var closedChans = map[unsafe.Pointer]bool{}

func chanWait(what string) {
	if schedActive && curTask != nil {
		blockYield()
		return
	}
	if len(pendingGo) > 0 {
		fn := pendingGo[0]
		pendingGo = pendingGo[1:]
		fn()
		return
	}
	Unsupported = "a channel " + what + " blocks while no other goroutine is left to run in single-goroutine mode"
	panic(ErrDeadlock)
}

func Recv[T any](ch <-chan T) T {
	v, _ := Recv2(ch)
	return v
}

func Recv2[T any](ch <-chan T) (T, bool) {
	if ch == nil {
		chanWait("receive from a nil channel")
	}
	id := unsafe.Pointer(reflect.ValueOf(ch).Pointer())
	for {
		select {
		case v, ok := <-ch:
			SyncAcquire(id)
			syncPoint(id)
			return v, ok
		default:
		}
		if q := unbufSends[id]; len(q) > 0 {
			p := q[0]
			unbufSends[id] = q[1:]
			p.taken = true
			SyncAcquire(id)
			syncPoint(id)
			return p.v.(T), true
		}
		chanWait("receive")
	}
}

func Send[T any](ch chan<- T, v T) {
	id := unsafe.Pointer(reflect.ValueOf(ch).Pointer())
	if closedChans[id] {
		panic("send on closed channel")
	}
	SyncRelease(id)
	if cap(ch) > 0 {
		for {
			select {
			case ch <- v:
				syncPoint(id)
				return
			default:
			}
			chanWait("send")
		}
	}
	p := &pendSend{v: v}
	unbufSends[id] = append(unbufSends[id], p)
	for !p.taken {
		chanWait("send")
	}
	syncPoint(id)
}

func Close[C any](ch C) {
	rv := reflect.ValueOf(ch)
	id := unsafe.Pointer(rv.Pointer())
	SyncRelease(id)
	closedChans[id] = true
	rv.Close()
	syncPoint(id)
}

// ---- happens-before edges of modelled synchronisation ----

var syncClocks map[unsafe.Pointer][]uint64

func joinInto(dst *[]uint64, src []uint64) {
	for len(*dst) < len(src) {
		*dst = append(*dst, 0)
	}
	for i, v := range src {
		if v > (*dst)[i] {
			(*dst)[i] = v
		}
	}
}

// SyncAcquire orders everything released on obj before the current task.
func SyncAcquire(obj unsafe.Pointer) {
	if !schedActive || curTask == nil {
		return
	}
	if c, ok := syncClocks[obj]; ok {
		joinInto(&curTask.vc, c)
	}
}

// SyncRelease publishes the current task's clock on obj.
func SyncRelease(obj unsafe.Pointer) {
	if !schedActive || curTask == nil {
		return
	}
	c := syncClocks[obj]
	joinInto(&c, curTask.vc)
	syncClocks[obj] = c
	curTask.vc[curTask.id]++
}
