package simrt

import (
	"sync"
	"unsafe"
)

// Modelled synchronisation primitives. Under the scheduler a task must never
// block its OS thread on a primitive held by a parked task, so acquisition is
// try-and-yield; each primitive also contributes the happens-before edge the
// Go memory model assigns it.

// SingleThreaded is set by the harness: outside the scheduler exactly one goroutine
// runs repository code, so a lock that cannot be taken can never be released either.
var SingleThreaded bool

// ErrDeadlock is the panic value of a self-deadlock detected in single-threaded mode.
var ErrDeadlock = errDeadlock{}

type errDeadlock struct{}

func (errDeadlock) Error() string {
	return "simrt: deadlock: the only running goroutine waits for a lock that is already held (left locked by an earlier call)"
}

// NextSyncQuantum, set by a Chooser before it returns, makes the chosen task yield right
// after its k-th modelled synchronisation operation from now (atomic operation, lock,
// unlock, Once, pool Get/Put, go, WaitGroup), i.e. at the step point that follows the
// statement performing it -- the preemption points that separate two operations meant to
// be one (CHESS-style). With NextUntilObj also set, the count starts only once the task has
// performed an operation on that object: "run until you touch what the other task just
// touched, then k more operations" -- this lines two tasks up at the same site without
// knowing where the site is (race-directed, after RaceFuzzer).
var NextSyncQuantum int64
var NextUntilObj unsafe.Pointer

// PrevSyncObj is the object of the most recent synchronisation operation (performed by
// the task that ran last); a Chooser reads it.
var PrevSyncObj unsafe.Pointer

// SyncOps counts modelled synchronisation operations executed under the scheduler.
var SyncOps int64

func syncPoint(obj unsafe.Pointer) {
	if !schedActive || curTask == nil {
		return
	}
	SyncOps++
	PrevSyncObj = obj
	t := curTask
	if t.untilObj != nil {
		if obj == t.untilObj {
			t.untilObj = nil
			t.syncQ = t.afterK
		}
		return
	}
	if t.syncQ > 0 {
		t.syncQ--
		if t.syncQ == 0 {
			t.quantum = 0 // yields at its next step point
		}
	}
}

func MutexLock(m *sync.Mutex) {
	if !schedActive {
		if SingleThreaded {
			if !m.TryLock() {
				panic(ErrDeadlock)
			}
			return
		}
		m.Lock()
		return
	}
	for !m.TryLock() {
		blockYield()
	}
	SyncAcquire(unsafe.Pointer(m))
	curTask.locks++
	syncPoint(unsafe.Pointer(m))
}

func MutexUnlock(m *sync.Mutex) {
	syncPoint(unsafe.Pointer(m))
	if schedActive && curTask != nil && curTask.locks > 0 {
		curTask.locks--
	}
	SyncRelease(unsafe.Pointer(m))
	m.Unlock()
}

func MutexTryLock(m *sync.Mutex) bool {
	ok := m.TryLock()
	if ok {
		SyncAcquire(unsafe.Pointer(m))
		if schedActive && curTask != nil {
			curTask.locks++
		}
	}
	return ok
}

// An RWMutex has two clocks: what writers released (key m) and what readers released
// (key m+1). A reader acquires only the writers' clock, so two read-lock holders are
// NOT ordered with respect to each other (as in Go's memory model); a writer acquires both.
func rclock(m *sync.RWMutex) unsafe.Pointer { return unsafe.Add(unsafe.Pointer(m), 1) }

func RWLock(m *sync.RWMutex) {
	if !schedActive {
		if SingleThreaded {
			if !m.TryLock() {
				panic(ErrDeadlock)
			}
			return
		}
		m.Lock()
		return
	}
	for !m.TryLock() {
		blockYield()
	}
	SyncAcquire(unsafe.Pointer(m))
	SyncAcquire(rclock(m))
	curTask.locks++
	syncPoint(unsafe.Pointer(m))
}

func RWUnlock(m *sync.RWMutex) {
	syncPoint(unsafe.Pointer(m))
	if schedActive && curTask != nil && curTask.locks > 0 {
		curTask.locks--
	}
	SyncRelease(unsafe.Pointer(m))
	m.Unlock()
}

func RWRLock(m *sync.RWMutex) {
	if !schedActive {
		if SingleThreaded {
			if !m.TryRLock() {
				panic(ErrDeadlock)
			}
			return
		}
		m.RLock()
		return
	}
	for !m.TryRLock() {
		blockYield()
	}
	SyncAcquire(unsafe.Pointer(m))
	syncPoint(unsafe.Pointer(m))
}

// RWRUnlock: a later WRITER is ordered after this reader; other readers are not.
func RWRUnlock(m *sync.RWMutex) {
	syncPoint(unsafe.Pointer(m))
	SyncRelease(rclock(m))
	m.RUnlock()
}

// OnceDo: the completion of f happens before the return of every Do.
// A second task arriving while f is in progress (f yielded) must wait.
var onceBusy = map[*sync.Once]int{}

func OnceDo(o *sync.Once, f func()) {
	if !schedActive {
		o.Do(f)
		return
	}
	for {
		owner, busy := onceBusy[o]
		if !busy {
			break
		}
		if owner == curTask.id {
			break // re-entrant Do deadlocks in real Go too; let it
		}
		blockYield()
	}
	syncPoint(unsafe.Pointer(o))
	SyncAcquire(unsafe.Pointer(o))
	o.Do(func() {
		onceBusy[o] = curTask.id
		curTask.inOnce++
		defer func() {
			curTask.inOnce--
			delete(onceBusy, o)
			SyncRelease(unsafe.Pointer(o))
		}()
		f()
	})
	SyncAcquire(unsafe.Pointer(o))
}

// OnceFunc, OnceValue and OnceValues stand in for the sync functions of the same name
// (a real sync.Once inside them would block a parked task's goroutine for real).
func OnceFunc(f func()) func() {
	o := new(sync.Once)
	return func() { OnceDo(o, f) }
}

func OnceValue[T any](f func() T) func() T {
	o := new(sync.Once)
	var v T
	return func() T {
		OnceDo(o, func() { v = f() })
		return v
	}
}

func OnceValues[T1, T2 any](f func() (T1, T2)) func() (T1, T2) {
	o := new(sync.Once)
	var v1 T1
	var v2 T2
	return func() (T1, T2) {
		OnceDo(o, func() { v1, v2 = f() })
		return v1, v2
	}
}

// AtomicOp is recorded before a statement that performs a sync/atomic
// operation, a sync.Map method or a sync.Pool Get/Put on *p. The object is
// treated as acquire+release both here and again at the task's next step point
// (after the operation has completed): this over-orders, so it can hide a race
// through that object but can never invent one.
func AtomicOp[T any](site uint32, p *T) {
	if !schedActive || curTask == nil {
		return
	}
	obj := unsafe.Pointer(p)
	SyncAcquire(obj)
	SyncRelease(obj)
	curTask.pending = append(curTask.pending, obj)
	if LogAccesses && len(accessLog) < 400000 {
		accessLog = append(accessLog, AccessRec{curTask.id, curTask.steps, site, uintptr(obj), true})
	}
	syncPoint(obj)
}

// ---- sync.Pool ----
//
// A real sync.Pool hands back "any object previously Put, or New()": which one
// depends on the P the goroutine happens to run on and on GC timing, neither of
// which the simulator controls. With SimPools on, every pool is a simulator-owned
// LIFO list: Get returns the most recently Put object (the choice that reuses an
// object soonest, i.e. the adversarial one for use-after-Put bugs) and is
// identical in every process. Put happens-before the Get that returns the object.

// SimPools is switched on by the harness; off, Get/Put go to the real pool.
var SimPools bool

var pools = map[*sync.Pool][]any{}

// ResetPools forgets every pooled object (called between cases).
func ResetPools() { pools = map[*sync.Pool][]any{} }

func PoolGet(p *sync.Pool) any {
	if !SimPools {
		return p.Get()
	}
	SyncAcquire(unsafe.Pointer(p))
	if l := pools[p]; len(l) > 0 {
		v := l[len(l)-1]
		pools[p] = l[:len(l)-1]
		PoolReuses++
		return v
	}
	if p.New != nil {
		return p.New()
	}
	return nil
}

func PoolPut(p *sync.Pool, v any) {
	if !SimPools {
		p.Put(v)
		return
	}
	SyncRelease(unsafe.Pointer(p))
	pools[p] = append(pools[p], v)
}

// PoolReuses counts Gets served from a simulated pool.
var PoolReuses uint64
