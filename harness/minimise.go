package main

import (
	"encoding/json"
	"time"
)

func cloneTree(ns []*TNode) []*TNode {
	b, _ := json.Marshal(ns)
	var out []*TNode
	json.Unmarshal(b, &out)
	return out
}

func cloneEnv(e *Env) *Env {
	b, _ := json.Marshal(e)
	var out Env
	json.Unmarshal(b, &out)
	return &out
}

// treeVariants returns every tree obtained from ns by one simplification step.
func treeVariants(ns []*TNode) [][]*TNode {
	var out [][]*TNode
	fresh := func() *TNode { return &TNode{K: "root", C: cloneTree(ns)} }
	var walk func(get func(root *TNode) *[]*TNode)
	walk = func(get func(root *TNode) *[]*TNode) {
		list := *get(&TNode{K: "root", C: ns})
		for i := range list {
			i := i
			n := list[i]
			// delete node i
			c := fresh()
			l := get(c)
			*l = append((*l)[:i:i], (*l)[i+1:]...)
			out = append(out, c.C)
			if n.K == "block" {
				// replace the block by its body
				c := fresh()
				l := get(c)
				nl := append([]*TNode{}, (*l)[:i]...)
				nl = append(nl, (*l)[i].C...)
				nl = append(nl, (*l)[i+1:]...)
				*l = nl
				out = append(out, c.C)
				for j := range n.Cl { // drop each clause
					c := fresh()
					nn := (*get(c))[i]
					nn.Cl = append(nn.Cl[:j:j], nn.Cl[j+1:]...)
					out = append(out, c.C)
				}
			}
			if n.TL || n.TR || n.EL || n.ER {
				c := fresh()
				nn := (*get(c))[i]
				nn.TL, nn.TR, nn.EL, nn.ER = false, false, false, false
				out = append(out, c.C)
			}
			if n.K == "text" && len(n.S) > 1 {
				c := fresh()
				(*get(c))[i].S = "x"
				out = append(out, c.C)
			}
			if n.K == "block" {
				walk(func(root *TNode) *[]*TNode { return &(*get(root))[i].C })
				for j := range n.Cl {
					j := j
					walk(func(root *TNode) *[]*TNode { return &(*get(root))[i].Cl[j].C })
				}
			}
		}
	}
	walk(func(root *TNode) *[]*TNode { return &root.C })
	return out
}

// minimiseTree greedily applies simplification steps while test stays true.
func minimiseTree(ns []*TNode, deadline time.Time, test func([]*TNode) bool) []*TNode {
	for changed := true; changed && time.Now().Before(deadline); {
		changed = false
		for _, v := range treeVariants(ns) {
			if time.Now().After(deadline) {
				break
			}
			if countNodes(v) < countNodes(ns) || len(Source(v)) < len(Source(ns)) {
				if test(v) {
					ns, changed = v, true
					break
				}
			}
		}
	}
	return ns
}

// minimiseEnv drops bindings while test stays true.
func minimiseEnv(e *Env, deadline time.Time, test func(*Env) bool) *Env {
	for i := len(e.Names) - 1; i >= 0 && time.Now().Before(deadline); i-- {
		c := cloneEnv(e)
		c.Names = append(c.Names[:i:i], c.Names[i+1:]...)
		c.Vals = append(c.Vals[:i:i], c.Vals[i+1:]...)
		if test(c) {
			e = c
		}
	}
	return e
}
