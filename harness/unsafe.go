package main

import (
	"reflect"
	"unsafe"
)

// unsafePtr returns a pointer to v's storage (copying if not addressable), so
// that unexported struct contents can be snapshotted.
func unsafePtr(v reflect.Value) unsafe.Pointer {
	if v.CanAddr() {
		return unsafe.Pointer(v.UnsafeAddr())
	}
	c := reflect.New(v.Type()).Elem()
	c.Set(v)
	return unsafe.Pointer(c.UnsafeAddr())
}
