package main

import (
	"fmt"
	"os"
	"strings"
)

// TNode is a node of a generated template. Templates are kept as trees so the
// minimiser can delete subtrees and stay well-formed.
type TNode struct {
	K  string    `json:"k"`            // text obj tag block raw comment
	S  string    `json:"s,omitempty"`  // text / expression / "name args"
	C  []*TNode  `json:"c,omitempty"`  // block body
	Cl []*Clause `json:"cl,omitempty"` // else / elsif / when
	TL bool      `json:"tl,omitempty"`
	TR bool      `json:"tr,omitempty"`
	EL bool      `json:"el,omitempty"` // trim markers of the end tag
	ER bool      `json:"er,omitempty"`
	Sp int       `json:"sp,omitempty"` // spacing inside the delimiters: 0 " ", 1 none, 2 newline, 3 blanks and tab
}

type Clause struct {
	S  string   `json:"s"` // "else" / "elsif cond" / "when x, y"
	C  []*TNode `json:"c,omitempty"`
	TL bool     `json:"tl,omitempty"`
	TR bool     `json:"tr,omitempty"`
}

// Delimiters used by Source(); set from the case's engine configuration.
var dOL, dOR, dTL, dTR = "{{", "}}", "{%", "%}"

// wrapIncludes (C14): every include is bracketed by the harness's snap/mark tags.
var wrapIncludes bool

// includeMode (C14, with wrapIncludes): 0 = snap/include/mark, 1 = bare include,
// 2 = include replaced by the reference tag refinc.
var includeMode int

// captureDepth counts the enclosing capture blocks while Source() writes a tree.
var captureDepth int

var spacings = []string{" ", "", "\n", "  \t"}

func sp(n *TNode) string { return spacings[n.Sp%len(spacings)] }

func mk(l bool) string {
	if l {
		return "-"
	}
	return ""
}

func Source(ns []*TNode) string {
	var sb strings.Builder
	for _, n := range ns {
		n.write(&sb)
	}
	return sb.String()
}

func (n *TNode) write(sb *strings.Builder) {
	switch n.K {
	case "text":
		sb.WriteString(n.S)
	case "obj":
		sb.WriteString(dOL + mk(n.TL) + sp(n) + n.S + sp(n) + mk(n.TR) + dOR)
	case "tag":
		if wrapIncludes && strings.HasPrefix(n.S, "include ") {
			arg := strings.TrimPrefix(n.S, "include ")
			mode := includeMode
			if mode == 0 && captureDepth > 0 {
				// inside a capture the include's output goes into a variable that may be
				// filtered before it is printed: no segment to compare (the reference-tag
				// oracle still covers it); snapc only records that the include was reached
				sb.WriteString(dTL + " snapc " + arg + " " + dTR + dTL + " include " + arg + " " + dTR)
				return
			}
			switch mode {
			case 0:
				sb.WriteString(dTL + " snap " + arg + " " + dTR + dTL + " include " + arg + " " + dTR + dTL + " mark " + dTR)
			case 1: // bare include, trim markers kept
				sb.WriteString(dTL + mk(n.TL) + " include " + arg + " " + mk(n.TR) + dTR)
			case 2: // the harness's reference implementation in the same place
				sb.WriteString(dTL + mk(n.TL) + " refinc " + arg + " " + mk(n.TR) + dTR)
			}
			return
		}
		sb.WriteString(dTL + mk(n.TL) + " " + n.S + " " + mk(n.TR) + dTR)
	case "raw", "comment":
		sb.WriteString(dTL + mk(n.TL) + " " + n.K + " " + mk(n.TR) + dTR + n.S + dTL + mk(n.EL) + " end" + n.K + " " + mk(n.ER) + dTR)
	case "block":
		name := n.S
		if i := strings.IndexByte(name, ' '); i >= 0 {
			name = name[:i]
		}
		sb.WriteString(dTL + mk(n.TL) + sp(n) + n.S + sp(n) + mk(n.TR) + dTR)
		if name == "capture" {
			captureDepth++
		}
		for _, c := range n.C {
			c.write(sb)
		}
		if name == "capture" {
			captureDepth--
		}
		for _, cl := range n.Cl {
			sb.WriteString(dTL + mk(cl.TL) + " " + cl.S + " " + mk(cl.TR) + dTR)
			for _, c := range cl.C {
				c.write(sb)
			}
		}
		sb.WriteString(dTL + mk(n.EL) + " end" + name + " " + mk(n.ER) + dTR)
	}
}

func countNodes(ns []*TNode) int {
	t := 0
	for _, n := range ns {
		t += 1 + countNodes(n.C)
		for _, cl := range n.Cl {
			t += 1 + countNodes(cl.C)
		}
	}
	return t
}

// ---------------------------------------------------------------------------

type scope struct {
	strs, nums, arrs, maps, anys []string
}

func (s scope) clone() scope {
	c := func(x []string) []string { return append([]string(nil), x...) }
	return scope{c(s.strs), c(s.nums), c(s.arrs), c(s.maps), c(s.anys)}
}

// Gen generates templates over a binding environment.
type Gen struct {
	ReadOnly     bool     // no assign / capture / break / include / custom tags / error constructs: the nodes only read
	loopVars     []string // names of the enclosing loops' variables, innermost last
	mapPaths     []string // dotted paths of maps nested in the bindings ("m.k", "m.k.j")
	r            *Rng
	feat         map[string]bool
	incArgs      []string // argument expressions for include tags; empty = no include
	budget       int
	loop         int
	nvar         int
	used         map[string]int // constructs used (tag/filter coverage)
	crlf         bool           // every newline of literal text is CR LF
	PropEmphasis bool           // property reads of structs and maps dominate (one site, several dynamic types across environments)
	MapEmphasis  bool           // C02: prefer maps as iteration / filter inputs
	NoCustom     bool           // only standard tags and filters
	ArrEmphasis  bool           // C03/C04: prefer arrays with mutating-looking filters
	focus        []filt         // swarm: a few filters used much more often than the rest, with varied arguments
	env          *Env           // bindings the templates are generated over (for boundary-value arguments)
	hint         int            // length of the value the next filter is applied to, -1 if unknown
}

var allFeatures = []string{"spacing", "trim", "raw", "comment", "tablerow", "cycle", "capture", "case", "custom", "errors", "filters", "assign", "breaks", "unless", "loopmods", "nest"}

func NewGen(r *Rng, budget int) *Gen {
	g := &Gen{r: r, feat: map[string]bool{}, budget: budget, used: map[string]int{}, hint: -1}
	// swarm: each run enables a random subset of features
	for _, f := range allFeatures {
		if r.Chance(0.7) {
			g.feat[f] = true
		}
	}
	if r.Chance(0.35) {
		g.focus = pickFocus(r)
	}
	g.PropEmphasis = r.Chance(0.15)
	g.crlf = r.Chance(0.1)
	if r.Chance(0.1) {
		g.feat["deep"], g.feat["nest"] = true, true
	}
	return g
}

// pickFocus draws 1..3 filters to be used much more often than the rest
// (swarm testing: state keyed by filter arguments needs many uses of ONE filter).
func pickFocus(r *Rng) []filt {
	all := append(append(append([]filt{}, strFilters...), numFilters...), arrFilters...)
	var f []filt
	if want := os.Getenv("VERIF_FOCUS"); want != "" { // debugging aid: force one focus filter
		for _, x := range all {
			if x.name == want {
				return []filt{x}
			}
		}
	}
	for i, n := 0, r.Range(1, 3); i < n; i++ {
		f = append(f, pick(r, all))
	}
	if r.Chance(0.08) {
		for _, x := range strFilters {
			if x.name == "date" {
				f = append(f, x)
			}
		}
	}
	return f
}

// dateWords: strings in the date layouts the library recognises (with and without a
// zone, with a literal Z, with a numeric offset, with a zone abbreviation).
var dateWords = []string{"2017-07-09", "March 3, 2021", "2020-02-29 12:00", "02 Jan 2006", "Mon, 02 Jan 2006 15:04:05 -0700",
	"2017-07-09T10:40:00Z", "2017-07-09T10:40:00+02:00", "20170709T104000Z", "2017-01-09 10:40:00 -0700", "2017-07-09 10:40:00 UTC",
	"2017-07-09T08:40:00Z", "2017-07-09T14:10:00+05:30", "2017-07-09T08:40:00+00:00", // the same instant as the +02:00 one above, in other zones
	"Jan 2 2006", "02 January 2006", "2017-07-09 10:40:00", "Mon Jan  2 15:04:05 2006", "Monday, 02-Jan-06 15:04:05 MST", "2017-01-09 10:40:00 EST"}

func scopeOf(e *Env) scope {
	var s scope
	for i, n := range e.Names {
		v := e.Vals[i]
		if v.T == "drop" {
			v = v.A[0]
		}
		switch v.T {
		case "str":
			s.strs = append(s.strs, n)
		case "int", "float", "jnum":
			s.nums = append(s.nums, n)
		case "arr":
			s.arrs = append(s.arrs, n)
		case "map", "imap", "amap":
			s.maps = append(s.maps, n)
		default:
			s.anys = append(s.anys, n)
		}
	}
	return s
}

func (g *Gen) use(k string) { g.used[k]++ }

func quote(s string) string {
	if !strings.Contains(s, `"`) {
		return `"` + s + `"`
	}
	return `'` + strings.ReplaceAll(s, `'`, ``) + `'`
}

var litWords = []string{"a", "b", "apple", "x y", ",", " ", "", "é", "10", "<b>", "Z", "-"}

func (g *Gen) strLit() string { return quote(pick(g.r, litWords)) }
func (g *Gen) intLit() string { return fmt.Sprint(g.r.Range(-2, 9)) }

func (g *Gen) strAtom(sc scope) string {
	if len(sc.strs) > 0 && g.r.Chance(0.7) {
		return pick(g.r, sc.strs)
	}
	return g.strLit()
}

func (g *Gen) numAtom(sc scope) string {
	if len(sc.nums) > 0 && g.r.Chance(0.6) {
		return pick(g.r, sc.nums)
	}
	if g.r.Chance(0.2) {
		if g.r.Chance(0.25) {
			// spellings of the same or nearly the same number
			return pick(g.r, []string{"0.0", "-0.0", "-0", "1.0", "1.50", "1.5", "-1.5", "2.0", "007", "0.10", "0.1"})
		}
		return fmt.Sprintf("%d.%d", g.r.Range(0, 9), g.r.Range(0, 99))
	}
	return g.intLit()
}

type filt struct {
	name string
	args func(g *Gen, sc scope) string
}

func noArgs(*Gen, scope) string { return "" }

var strFilters = []filt{
	{"append", func(g *Gen, sc scope) string { return ": " + g.strAtom(sc) }},
	{"prepend", func(g *Gen, sc scope) string { return ": " + g.strAtom(sc) }},
	{"capitalize", noArgs}, {"downcase", noArgs}, {"upcase", noArgs}, {"escape", noArgs}, {"escape_once", noArgs},
	{"newline_to_br", noArgs}, {"strip", noArgs}, {"lstrip", noArgs}, {"rstrip", noArgs}, {"strip_html", noArgs},
	{"strip_newlines", noArgs}, {"url_encode", noArgs}, {"url_decode", noArgs},
	{"remove", func(g *Gen, sc scope) string { return ": " + g.strLit() }},
	{"remove_first", func(g *Gen, sc scope) string { return ": " + g.strLit() }},
	{"replace", func(g *Gen, sc scope) string { return ": " + g.strLit() + ", " + g.strLit() }},
	{"replace_first", func(g *Gen, sc scope) string { return ": " + g.strLit() + ", " + g.strLit() }},
	{"slice", func(g *Gen, sc scope) string {
		if g.r.Chance(0.5) {
			return ": " + g.intLit()
		}
		return ": " + g.intLit() + ", " + fmt.Sprint(g.near(0, 5))
	}},
	{"truncate", func(g *Gen, sc scope) string {
		if g.r.Chance(0.15) {
			return "" // every optional argument omitted
		}
		if g.r.Chance(0.5) {
			return ": " + fmt.Sprint(g.near(3, 12))
		}
		return ": " + fmt.Sprint(g.near(3, 12)) + ", " + quote(pick(g.r, []string{"", "..", "~"}))
	}},
	{"truncatewords", func(g *Gen, sc scope) string {
		switch g.r.Intn(5) {
		case 0:
			return ""
		case 1:
			return ": " + fmt.Sprint(g.near(1, 4)) + ", " + quote(pick(g.r, []string{"", "..", "~"}))
		}
		return ": " + fmt.Sprint(g.near(1, 4))
	}},
	{"date", func(g *Gen, sc scope) string {
		if g.r.Chance(0.3) {
			return ""
		}
		return ": " + quote(pick(g.r, []string{"%Y-%m-%d", "%b %d, %y", "%H:%M", "%a", "%Y-%m-%d %H:%M %z", "%s", "%H %Z"}))
	}},
	{"size", noArgs},
	{"default", func(g *Gen, sc scope) string { return ": " + g.strLit() }},
	{"hx", noArgs},
}

var numFilters = []filt{
	{"abs", noArgs}, {"ceil", noArgs}, {"floor", noArgs},
	{"round", func(g *Gen, sc scope) string {
		if g.r.Chance(0.5) {
			return ""
		}
		return ": " + fmt.Sprint(g.r.Range(0, 3))
	}},
	{"plus", func(g *Gen, sc scope) string { return ": " + g.numAtom(sc) }},
	{"minus", func(g *Gen, sc scope) string { return ": " + g.numAtom(sc) }},
	{"times", func(g *Gen, sc scope) string { return ": " + g.numAtom(sc) }},
	{"divided_by", func(g *Gen, sc scope) string { return ": " + fmt.Sprint(g.near(1, 7)) }},
	{"modulo", func(g *Gen, sc scope) string { return ": " + fmt.Sprint(g.near(1, 7)) }},
}

// array -> array filters
var arrFilters = []filt{
	{"compact", noArgs}, {"reverse", noArgs}, {"sort", noArgs}, {"sort_natural", noArgs}, {"uniq", noArgs},
	{"concat", func(g *Gen, sc scope) string {
		if len(sc.arrs) > 0 {
			return ": " + pick(g.r, sc.arrs)
		}
		return ": nums"
	}},
	{"map", func(g *Gen, sc scope) string { return ": " + quote(pick(g.r, []string{"name", "n", "a"})) }},
	{"sort", func(g *Gen, sc scope) string { return ": " + quote(pick(g.r, []string{"name", "n"})) }},
	{"hwhere", func(g *Gen, sc scope) string {
		if g.r.Chance(0.5) {
			return `: "x", cond` // the expression text comes from a binding
		}
		return `: "x", ` + quote(pick(g.r, []string{"x", "x > 2", "x == 1", "x.n", "x contains 'a'"}))
	}},
}

// array -> scalar
var arrScalarFilters = []filt{
	{"join", func(g *Gen, sc scope) string {
		if g.r.Chance(0.4) {
			return ""
		}
		return ": " + g.strLit()
	}},
	{"first", noArgs}, {"last", noArgs}, {"size", noArgs}, {"json", noArgs}, {"inspect", noArgs},
}

// lenHint: the rune length of the value an expression atom denotes, if known.
func (g *Gen) lenHint(atom string) int {
	if len(atom) >= 2 && (atom[0] == '"' || atom[0] == '\'') {
		return len([]rune(atom)) - 2
	}
	if g.env != nil {
		if v := g.env.get(atom); v != nil && v.T == "str" {
			return len([]rune(v.S))
		}
	}
	return -1
}

// near returns a threshold argument: close to the input's length when that is
// known (boundary values: thresholds just below, at and just above the length).
func (g *Gen) near(lo, hi int) int {
	if g.r.Chance(0.02) {
		// far outside the usual range: limits of repeat counts, buffer sizes and integer widths
		return pick(g.r, []int{255, 256, 999, 1000, 1001, 4096, 65536, 1 << 31, -1 << 31})
	}
	if g.hint >= 0 && g.r.Chance(0.6) {
		n := g.hint + g.r.Range(-3, 3)
		if n < 0 {
			n = 0
		}
		return n
	}
	return g.r.Range(lo, hi)
}

func (g *Gen) chain(base string, fs []filt, sc scope, max int) string {
	if !g.feat["filters"] {
		max = 1
	}
	g.hint = g.lenHint(base)
	defer func() { g.hint = -1 }()
	for i, n := 0, g.r.Intn(max+1); i < n; i++ {
		f := pick(g.r, fs)
		if len(g.focus) > 0 && g.r.Chance(0.5) {
			f = pick(g.r, g.focus) // may be ill-typed for this input: an error is a result too
		}
		if g.NoCustom && (f.name == "hx" || f.name == "hwhere") {
			continue
		}
		g.use("filter:" + f.name)
		base += " | " + f.name + f.args(g, sc)
		g.hint = -1 // unknown after a filter
	}
	return base
}

// arrayExpr yields an expression (with filters) that evaluates to a sequence.
func (g *Gen) arrayExpr(sc scope) string {
	var base string
	w := []int{5, 3, 2, 2, 1}
	if g.MapEmphasis {
		w = []int{2, 8, 1, 1, 1}
	}
	if g.ArrEmphasis {
		w = []int{10, 2, 1, 1, 3}
	}
	if len(sc.arrs) == 0 {
		w[0] = 0
	}
	if len(sc.maps) == 0 {
		w[1] = 0
	}
	if len(sc.strs) == 0 {
		w[3] = 0
	}
	if !g.NoCustom && g.r.Chance(0.04) {
		// a temporary map built by a custom filter (iterated as [key, value] pairs)
		g.use("filter:kv")
		return pick(g.r, []string{g.strAtom(sc), g.numAtom(sc)}) + " | kv: " + g.strLit()
	}
	switch g.r.weighted(w) {
	case 0:
		base = pick(g.r, sc.arrs)
	case 1:
		base = pick(g.r, sc.maps)
	case 2:
		base = fmt.Sprintf("(%d..%d)", g.r.Range(0, 3), g.r.Range(1, 6))
		return base // ranges accept no filters in loop position reliably
	case 3:
		base = pick(g.r, sc.strs) + " | split: " + quote(pick(g.r, []string{",", " ", "a"}))
		g.use("filter:split")
	default:
		base = "recs"
	}
	if g.ArrEmphasis {
		f := pick(g.r, arrFilters)
		g.use("filter:" + f.name)
		base += " | " + f.name + f.args(g, sc)
	}
	return g.chain(base, arrFilters, sc, 2)
}

// scalarExpr yields an expression for {{ }}.
func (g *Gen) scalarExpr(sc scope) string {
	w := []int{5, 4, 4, 3, 2, 2, 1, 2}
	if g.MapEmphasis {
		w = []int{2, 1, 8, 4, 1, 1, 1, 3}
	}
	if g.ArrEmphasis {
		w = []int{2, 1, 8, 2, 1, 2, 1, 2}
	}
	if g.PropEmphasis {
		w = []int{2, 1, 2, 12, 1, 2, 1, 2}
	}
	if g.loop == 0 {
		w[5] = 0
	}
	if len(sc.anys) == 0 {
		w[4] = 0
	}
	switch g.r.weighted(w) {
	case 0:
		return g.chain(g.strAtom(sc), strFilters, sc, 3)
	case 1:
		return g.chain(g.numAtom(sc), numFilters, sc, 3)
	case 2: // array -> scalar
		e := g.arrayExpr(sc)
		f := pick(g.r, arrScalarFilters)
		g.use("filter:" + f.name)
		return e + " | " + f.name + f.args(g, sc)
	case 3: // property / index
		sub := g.r.Intn(6)
		if g.PropEmphasis && g.r.Chance(0.5) {
			sub = 4
		}
		switch sub {
		case 0:
			if len(sc.maps) > 0 {
				return pick(g.r, sc.maps) + "." + pick(g.r, keyWords)
			}
		case 1:
			if len(sc.maps) > 0 {
				return pick(g.r, sc.maps) + "[" + quote(pick(g.r, keyWords)) + "]"
			}
		case 2:
			if len(sc.arrs) > 0 {
				return pick(g.r, sc.arrs) + "[" + g.intLit() + "]"
			}
		case 3:
			if len(sc.arrs) > 0 {
				return pick(g.r, sc.arrs) + "." + pick(g.r, []string{"first", "last", "size"})
			}
		case 4:
			if g.r.Chance(0.3) || (g.PropEmphasis && g.r.Chance(0.4)) {
				return "q." + pick(g.r, []string{"name", "Title", "Other", "title", "Label", "Count", "Label"})
			}
			return "p." + pick(g.r, []string{"Name", "Age", "Upper", "nick", "Tags", "PtrLen", "nope", "ID", "slug", "Base", "Slug", "Fail"})
		}
		if g.r.Chance(0.5) { // a whole binding printed as it is
			all := append(append(append([]string{"p", "d", "q"}, sc.maps...), sc.arrs...), sc.anys...)
			return pick(g.r, all)
		}
		if len(sc.maps) > 0 {
			return pick(g.r, sc.maps) + ".size"
		}
		return "p.Name"
	case 4:
		if !g.NoCustom && g.r.Chance(0.15) {
			// a Closure-parameter filter on an all-literal receiver; its expression text
			// (a string literal) refers to bindings
			recv := pick(g.r, []string{"(1..6)", `"a,b,apple,10" | split: ","`, "(0..3)"})
			return recv + ` | hwhere: "x", ` + quote(pick(g.r, []string{"x > n", "x == s", "x != v", "x < f", "x contains t"})) + " | join"
		}
		e := pick(g.r, sc.anys)
		if g.r.Chance(0.3) {
			e += " | " + pick(g.r, []string{"json", "inspect", "type", "default: \"dflt\"", "date: \"%Y-%m-%d\""})
		}
		return e
	case 5:
		return "forloop." + pick(g.r, []string{"index", "index0", "rindex", "rindex0", "first", "last", "length"})
	case 7: // a whole binding printed as it is (maps, MapSlices, slices, structs, Drops)
		all := append(append(append([]string{"p", "d", "q"}, sc.maps...), sc.arrs...), sc.anys...)
		return pick(g.r, all)
	}
	return g.chain(g.strLit(), strFilters, sc, 2)
}

func (g *Gen) cond(sc scope) string {
	one := func() string {
		switch g.r.Intn(8) {
		case 7: // equality of composite values (maps, records, lists), some of them near-copies
			all := append(append(append([]string{"p", "q", "d"}, sc.maps...), sc.arrs...), "recs[0]", "recs[1]", "site.cfg", "site.aux")
			a, b := pick(g.r, all), pick(g.r, all)
			hasM3 := false
			for _, n := range sc.maps {
				hasM3 = hasM3 || n == "m3"
			}
			if hasM3 && g.r.Chance(0.6) {
				return pick(g.r, []string{"m == m3", "m != m3", "m3 == m"})
			}
			return pick(g.r, []string{a + " == " + b, a + " != " + b, "arr contains " + a})
		case 0:
			return g.numAtom(sc) + " " + pick(g.r, []string{"==", "!=", "<", ">", "<=", ">="}) + " " + g.numAtom(sc)
		case 1:
			return g.strAtom(sc) + " " + pick(g.r, []string{"==", "!=", "contains"}) + " " + g.strAtom(sc)
		case 2:
			if len(sc.arrs) > 0 {
				return pick(g.r, sc.arrs) + " contains " + g.strLit()
			}
		case 3:
			if len(sc.anys) > 0 {
				return pick(g.r, sc.anys)
			}
		case 4:
			if len(sc.arrs) > 0 {
				return pick(g.r, sc.arrs) + ".size > " + fmt.Sprint(g.r.Range(0, 4))
			}
		case 5:
			if len(sc.maps) > 0 {
				return pick(g.r, sc.maps) + "." + pick(g.r, keyWords)
			}
		}
		if g.r.Chance(0.4) { // comparisons across kinds
			return pick(g.r, []string{g.numAtom(sc) + " == " + g.strAtom(sc), g.strAtom(sc) + " < " + g.numAtom(sc), "arr == nums", "nil != " + g.numAtom(sc),
				g.numAtom(sc) + " >= 2.5", "n == 1.0", "f > n", `"10" == 10`, "nums contains 3", `s contains 1`, "m contains " + quote(pick(g.r, keyWords))})
		}
		return pick(g.r, []string{"true", "false", "nil", "x", "x == nil"})
	}
	c := one()
	for g.r.Chance(0.25) {
		c += " " + pick(g.r, []string{"and", "or"}) + " " + one()
	}
	return c
}

var noSpaceText = "https://example.org/assets/" + strings.Repeat("0123456789abcdef", 6) + ".min.js"

// hugeText: one output chunk well above any plausible buffer threshold (4 kB, 8 kB)
var hugeText = strings.Repeat("0123456789abcdef", 600) + "!"

var textBits = []string{noSpaceText, hugeText, "a", "hello", " ", "  ", "\n", "\n\n", " \t", "x ", " y", "<p>", "</p>", "é", "日本", ", ", ".", "line\n", "\n  indented", "0", "{", "}", "%", "\r\n", "line\r\n"}

func (g *Gen) text() *TNode {
	var sb strings.Builder
	for i, n := 0, g.r.Range(1, 4); i < n; i++ {
		bit := pick(g.r, textBits)
		if g.loop > 0 && len(bit) > 1000 {
			bit = noSpaceText // the 9.6 kB chunk stays outside loops: nested loops would make hundreds of megabytes of it
		}
		sb.WriteString(bit)
	}
	s := sb.String()
	if g.crlf {
		s = strings.ReplaceAll(s, "\n", "\r\n") // a file with Windows line endings
	}
	s = strings.ReplaceAll(s, "{{", "{ {")
	s = strings.ReplaceAll(s, "{%", "{ %")
	return &TNode{K: "text", S: s}
}

func (g *Gen) trim(n *TNode) *TNode {
	if g.feat["spacing"] && g.r.Chance(0.3) {
		n.Sp = g.r.Range(1, 3)
	}
	if g.feat["trim"] {
		n.TL, n.TR, n.EL, n.ER = g.r.Chance(0.2), g.r.Chance(0.2), g.r.Chance(0.2), g.r.Chance(0.2)
	}
	return n
}

// Nodes generates a sequence of nodes within the remaining budget.
func (g *Gen) Nodes(sc scope, depth int, max int) []*TNode {
	var out []*TNode
	for i, n := 0, g.r.Range(1, max); i < n && g.budget > 0; i++ {
		g.budget--
		out = append(out, g.node(&sc, depth))
	}
	return out
}

func (g *Gen) node(sc *scope, depth int) *TNode {
	maxDepth := 3
	if g.feat["deep"] {
		maxDepth = 7
	}
	deep := depth < maxDepth && g.budget > 2 && (g.feat["nest"] || depth == 0)
	b := func(x bool, w int) int {
		if x {
			return w
		}
		return 0
	}
	w := []int{
		8,                                     // 0 text
		8,                                     // 1 obj
		b(deep, 3),                            // 2 if
		b(deep && g.feat["unless"], 1),        // 3 unless
		b(deep && g.feat["case"], 1),          // 4 case
		b(deep, 4),                            // 5 for
		b(deep && g.feat["tablerow"], 2),      // 6 tablerow
		b(g.feat["assign"] && !g.ReadOnly, 2), // 7 assign
		b(deep && g.feat["capture"] && !g.ReadOnly, 1),               // 8 capture
		b(g.loop > 0 && g.feat["cycle"], 4),                          // 9 cycle
		b(g.loop > 0 && g.feat["breaks"] && !g.ReadOnly, 1),          // 10 break/continue
		b(g.feat["comment"], 1),                                      // 11 comment
		b(g.feat["raw"], 1),                                          // 12 raw
		b(len(g.incArgs) > 0 && !g.ReadOnly, 3),                      // 13 include
		b(g.feat["custom"] && !g.NoCustom && !g.ReadOnly, 3),         // 14 echo / expand / bset: their arguments are evaluated at render time
		b(deep && g.feat["custom"] && !g.NoCustom && !g.ReadOnly, 1), // 15 wrap
		b(g.feat["errors"] && !g.ReadOnly, 1),                        // 16 error construct
	}
	switch g.r.weighted(w) {
	case 0:
		return g.text()
	case 1:
		g.use("obj")
		return g.trim(&TNode{K: "obj", S: g.scalarExpr(*sc)})
	case 2:
		g.use("tag:if")
		n := g.trim(&TNode{K: "block", S: "if " + g.cond(*sc), C: g.Nodes(*sc, depth+1, 3)})
		for g.r.Chance(0.3) && len(n.Cl) < 2 {
			n.Cl = append(n.Cl, &Clause{S: "elsif " + g.cond(*sc), C: g.Nodes(*sc, depth+1, 2)})
		}
		if g.r.Chance(0.5) {
			n.Cl = append(n.Cl, &Clause{S: "else", C: g.Nodes(*sc, depth+1, 2), TL: g.feat["trim"] && g.r.Chance(0.2), TR: g.feat["trim"] && g.r.Chance(0.2)})
		}
		return n
	case 3:
		g.use("tag:unless")
		n := g.trim(&TNode{K: "block", S: "unless " + g.cond(*sc), C: g.Nodes(*sc, depth+1, 3)})
		if g.r.Chance(0.4) {
			n.Cl = append(n.Cl, &Clause{S: "else", C: g.Nodes(*sc, depth+1, 2)})
		}
		return n
	case 4:
		g.use("tag:case")
		subj := pick(g.r, []string{g.numAtom(*sc), g.strAtom(*sc)})
		if len(g.loopVars) > 0 && g.r.Chance(0.5) {
			subj = g.loopVars[len(g.loopVars)-1] // takes a different value in every iteration
		}
		n := g.trim(&TNode{K: "block", S: "case " + subj})
		// a quarter of the cases draw their when-values from a pool of three, so that clauses
		// overlap (a value listed by two clauses: the first one in source order wins)
		var pool []string
		if g.r.Chance(0.4) {
			pool = []string{fmt.Sprint(g.r.Range(1, 3)), fmt.Sprint(g.r.Range(2, 4)), pick(g.r, []string{g.strLit(), fmt.Sprint(g.r.Range(0, 5))})}
		}
		for i, k := 0, g.r.Range(1, 5); i < k; i++ {
			w := pick(g.r, []string{g.intLit(), g.strLit(), g.intLit() + ", " + g.intLit(), g.numAtom(*sc), g.strAtom(*sc), g.strAtom(*sc) + ", " + g.numAtom(*sc)})
			if pool != nil {
				w = pick(g.r, pool)
				if g.r.Chance(0.6) {
					w += ", " + pick(g.r, pool)
				}
			}
			n.Cl = append(n.Cl, &Clause{S: "when " + w, C: g.Nodes(*sc, depth+1, 2)})
		}
		if g.r.Chance(0.5) {
			n.Cl = append(n.Cl, &Clause{S: "else", C: g.Nodes(*sc, depth+1, 2)})
		}
		if pool != nil && g.r.Chance(0.7) {
			// evaluated for a short run of the pool's values, in one render after the other
			lo := g.r.Range(1, 3)
			n.S = "case cv"
			head := fmt.Sprintf("for cv in (%d..%d)", lo, g.r.Range(lo, 4))
			if g.r.Chance(0.3) {
				head += " reversed"
			}
			return &TNode{K: "block", S: head, C: []*TNode{n}}
		}
		return n
	case 5, 6:
		name := "for"
		if g.r.Intn(1) == 0 && w[6] > 0 && g.r.Chance(0.33) {
			name = "tablerow"
		}
		g.use("tag:" + name)
		g.nvar++
		v := fmt.Sprintf("i%d", g.nvar)
		args := name + " " + v + " in " + g.arrayExpr(*sc)
		if g.feat["loopmods"] {
			if g.r.Chance(0.25) {
				args += " reversed"
			}
			if g.r.Chance(0.25) {
				args += " limit: " + fmt.Sprint(g.near(0, 4))
			}
			if g.r.Chance(0.25) {
				args += " offset: " + fmt.Sprint(g.near(0, 3))
			}
			if name == "tablerow" && g.r.Chance(0.6) {
				args += " cols: " + fmt.Sprint(g.r.Range(1, 3))
			}
		}
		inner := sc.clone()
		inner.anys = append(inner.anys, v, v+"[0]", v+"[1]", v+".name", v+".Title", v+".Label")
		g.loop++
		g.loopVars = append(g.loopVars, v)
		n := g.trim(&TNode{K: "block", S: args, C: g.Nodes(inner, depth+1, 4)})
		g.loopVars = g.loopVars[:len(g.loopVars)-1]
		g.loop--
		if strings.Contains(args, "| kv:") && name == "for" && g.r.Chance(0.6) {
			// a second loop over another temporary of the same shape, printing its pairs
			g.nvar++
			v2 := fmt.Sprintf("i%d", g.nvar)
			second := &TNode{K: "block", S: "for " + v2 + " in " + pick(g.r, []string{g.strAtom(*sc), g.numAtom(*sc)}) + " | kv: " + g.strLit(),
				C: []*TNode{{K: "obj", S: v2 + "[0]"}, {K: "text", S: "="}, {K: "obj", S: v2 + "[1]"}, {K: "text", S: ";"}}}
			n.C = append(n.C, &TNode{K: "obj", S: v + "[1]"})
			return &TNode{K: "block", S: "if true", C: []*TNode{n, second}}
		}
		if strings.Contains(args, "recs") && g.r.Chance(0.6) {
			// records: read a property of the loop variable (one site, several record types)
			n.C = append([]*TNode{{K: "obj", S: v + "." + pick(g.r, []string{"name", "Title", "Other", "n", "Label", "Label", "Count"})}}, n.C...)
		}
		if name == "for" && g.r.Chance(0.3) {
			n.Cl = append(n.Cl, &Clause{S: "else", C: g.Nodes(*sc, depth+1, 2)})
		}
		return n
	case 7:
		g.use("tag:assign")
		g.nvar++
		v := fmt.Sprintf("a%d", g.nvar)
		// Inside a loop an assigned name neither shadows a binding nor enters the
		// scope: otherwise two assignments can feed each other and grow a value
		// exponentially with the iteration count (2^216 elements were generated once).
		if g.loop == 0 && g.r.Chance(0.15) {
			v = pick(g.r, []string{"s", "n", "arr", "m"}) // shadow a binding
		}
		dottedAssign := false
		if g.r.Chance(0.04) {
			// a dotted target (rejected today; if it is ever accepted it must not reach into
			// the caller's maps)
			dottedAssign = true
			if len(g.mapPaths) > 0 && g.r.Chance(0.7) {
				v = pick(g.r, g.mapPaths) + "." + pick(g.r, keyWords)
			} else {
				v = pick(g.r, append([]string{"m", "m2"}, sc.maps...)) + "." + pick(g.r, keyWords) + "." + pick(g.r, keyWords)
			}
		}
		if dottedAssign {
			return g.trim(&TNode{K: "tag", S: "assign " + v + " = " + g.scalarExpr(*sc)})
		}
		var n *TNode
		if g.r.Chance(0.3) {
			n = &TNode{K: "tag", S: "assign " + v + " = " + g.arrayExpr(*sc)}
			if g.loop == 0 {
				sc.arrs = append(sc.arrs, v)
			}
		} else {
			n = &TNode{K: "tag", S: "assign " + v + " = " + g.scalarExpr(*sc)}
			if g.loop == 0 {
				sc.anys = append(sc.anys, v)
			}
		}
		return g.trim(n)
	case 8:
		g.use("tag:capture")
		g.nvar++
		v := fmt.Sprintf("c%d", g.nvar)
		dotted := false
		if g.r.Chance(0.06) {
			// a dotted name: whatever the library makes of it, it must not reach into the
			// caller's maps
			dotted = true
			if len(g.mapPaths) > 0 && g.r.Chance(0.7) {
				v = pick(g.r, g.mapPaths) + "." + pick(g.r, keyWords)
			} else {
				v = pick(g.r, append([]string{"m", "m2"}, sc.maps...)) + "." + pick(g.r, keyWords) + "." + pick(g.r, keyWords)
			}
		}
		n := g.trim(&TNode{K: "block", S: "capture " + v, C: g.Nodes(*sc, depth+1, 3)})
		if g.loop == 0 && !dotted {
			sc.strs = append(sc.strs, v)
		}
		return n
	case 9:
		g.use("tag:cycle")
		vals := []string{}
		for i, k := 0, g.r.Range(1, 3); i < k; i++ {
			vals = append(vals, g.strLit())
		}
		s := "cycle " + strings.Join(vals, ", ")
		if g.r.Chance(0.3) {
			s = "cycle " + quote(pick(g.r, []string{"g1", "g2"})) + ": " + strings.Join(vals, ", ")
		}
		return g.trim(&TNode{K: "tag", S: s})
	case 10:
		g.use("tag:break")
		return &TNode{K: "block", S: "if " + g.cond(*sc), C: []*TNode{{K: "tag", S: pick(g.r, []string{"break", "continue"})}}}
	case 11:
		g.use("tag:comment")
		return g.trim(&TNode{K: "comment", S: pick(g.r, []string{"", " note ", "{{ x }}", "{% if %}"})})
	case 12:
		g.use("tag:raw")
		return g.trim(&TNode{K: "raw", S: pick(g.r, []string{"", "r", " {{ x }} ", "{% if %}", "\n raw \n"})})
	case 13:
		if g.feat["custom"] && !g.NoCustom && !wrapIncludes && g.r.Chance(0.25) {
			g.use("tag:rfile") // custom tag built on Context.RenderFile
			return &TNode{K: "tag", S: "rfile " + pick(g.r, g.incArgs)}
		}
		g.use("tag:include")
		inc := &TNode{K: "tag", S: "include " + pick(g.r, g.incArgs)}
		if wrapIncludes && g.feat["trim"] {
			inc.TL, inc.TR = g.r.Chance(0.3), g.r.Chance(0.3) // only visible in include modes 1 and 2
		}
		if wrapIncludes && g.r.Chance(0.3) {
			// silent neighbours whose trim markers act on the included output itself
			seq := []*TNode{}
			if g.r.Chance(0.7) {
				seq = append(seq, &TNode{K: "tag", S: "assign q1 = 1", TR: true})
			}
			seq = append(seq, inc)
			if g.r.Chance(0.7) {
				seq = append(seq, &TNode{K: "tag", S: "assign q2 = 2", TL: true})
			}
			return &TNode{K: "block", S: "if true", C: seq}
		}
		return inc
	case 14:
		if g.r.Chance(0.3) {
			g.use("tag:expand") // custom tag that uses Context.ExpandTagArg
			if g.feat["errors"] && g.r.Chance(0.2) {
				return &TNode{K: "tag", S: "expand a{{ s | }}b"} // the argument itself does not compile
			}
			return g.trim(&TNode{K: "tag", S: "expand " + pick(g.r, []string{"a", "x-", ""}) + "{{ " + g.scalarExpr(*sc) + " }}" + pick(g.r, []string{"", "-b", " c"})})
		}
		if g.r.Chance(0.25) {
			g.use("tag:bset") // custom tag that writes through Context.Bindings()
			nm := pick(g.r, []string{"u", "v", "w"})
			sc.anys = append(sc.anys, "bset_"+nm)
			return &TNode{K: "block", S: "if true", C: []*TNode{{K: "obj", S: "bset_" + nm}, {K: "tag", S: "bset " + nm}}}
		}
		g.use("tag:echo")
		return g.trim(&TNode{K: "tag", S: "echo " + g.scalarExpr(*sc)})
	case 15:
		g.use("tag:wrap")
		return g.trim(&TNode{K: "block", S: "wrap", C: g.Nodes(*sc, depth+1, 3)})
	default:
		g.use("error-construct")
		return &TNode{K: pick(g.r, []string{"obj", "obj", "tag", "tag", "tag"}), S: ""}
	}
}

// errorConstructs are filled into the placeholder nodes above.
var errObjs = []string{`n | divided_by: 0`, `s | modulo: "x"`, `arr | concat: 5`, `undefined_var_zz`, `s | slice: "q"`,
	// misspelt filter names (undefined filters are reported at render time)
	`s | upcase: 1, 2`, `x | plus: 1`, `s | `, `s | join | | size`, `(1..`, `n.`, `arr[`,
	`s | upcas`, `s | lcase`, `arr | jon`, `arr | sise`, `s | xstrip`, `s | url_code`, `n | min`, `s | nosuchfilter`, `arr | frist`, `s | appnd: "x"`, `n | tims: 2`}
var errTags = []string{`include 5`, `include nil`, `cycle "a"`, `assign q = n | divided_by: 0`, `echo s | divided_by: 0`}

// constructs that make the whole template fail to parse (drawn rarely: a template that
// does not parse exercises nothing else)
var parseErrObjs = []string{`s | `, `s | join | | size`, `(1..`, `n.`, `arr[`}
var parseErrTags = []string{`endif`, `else`, `no_such_tag 1`, `for x`, `assign = 3`, `cycle`, `when 1`, `if`}

func (g *Gen) fixErrors(ns []*TNode) {
	for _, n := range ns {
		if n.S == "" && n.K == "obj" {
			n.S = pick(g.r, errObjs)
			if g.r.Chance(0.08) {
				n.S = pick(g.r, parseErrObjs)
			}
		}
		if n.S == "" && n.K == "tag" {
			n.S = pick(g.r, errTags)
			if g.r.Chance(0.08) {
				n.S = pick(g.r, parseErrTags)
			}
			if g.NoCustom && strings.HasPrefix(n.S, "echo") {
				n.S = "include 5"
			}
		}
		g.fixErrors(n.C)
		for _, cl := range n.Cl {
			g.fixErrors(cl.C)
		}
	}
}

var filtByName = func() map[string]filt {
	m := map[string]filt{}
	for _, l := range [][]filt{strFilters, numFilters, arrFilters, arrScalarFilters} {
		for _, f := range l {
			if _, ok := m[f.name]; !ok {
				m[f.name] = f
			}
		}
	}
	return m
}()

// reArg regenerates the arguments of every known filter in an expression:
// same inputs, same filters, other argument values.
func (g *Gen) reArg(expr string, sc scope) string {
	parts := strings.Split(expr, " | ")
	g.hint = -1
	if len(parts) > 0 {
		g.hint = g.lenHint(strings.TrimSpace(parts[0]))
	}
	defer func() { g.hint = -1 }()
	for i := 1; i < len(parts); i++ {
		if i > 1 {
			g.hint = -1
		}
		name := parts[i]
		if j := strings.IndexByte(name, ':'); j >= 0 {
			name = name[:j]
		}
		name = strings.TrimSpace(name)
		if f, ok := filtByName[name]; ok && g.r.Chance(0.8) {
			parts[i] = f.name + f.args(g, sc)
		}
	}
	return strings.Join(parts, " | ")
}

// Sibling returns a copy of a template tree in which filter arguments have been
// redrawn. Rendering a template and its siblings on one engine applies the same
// filter to the same inputs with nearby arguments: the situation in which state
// keyed by an incomplete function of the arguments (a memo, a cache) goes wrong.
func (g *Gen) Sibling(ns []*TNode, e *Env) []*TNode {
	g.env = e
	out := cloneTree(ns)
	sc := scopeOf(e)
	var walk func(ns []*TNode)
	walk = func(ns []*TNode) {
		for _, n := range ns {
			switch {
			case n.K == "obj":
				n.S = g.reArg(n.S, sc)
			case n.K == "tag" && (strings.HasPrefix(n.S, "assign ") || strings.HasPrefix(n.S, "echo ")):
				n.S = g.reArg(n.S, sc)
			case n.K == "block" && (strings.HasPrefix(n.S, "for ") || strings.HasPrefix(n.S, "tablerow ")):
				// loop modifiers follow the expression: only redraw when there are none
				if !strings.Contains(n.S, " limit:") && !strings.Contains(n.S, " offset:") && !strings.Contains(n.S, " cols:") && !strings.HasSuffix(n.S, " reversed") {
					n.S = g.reArg(n.S, sc)
				}
			}
			walk(n.C)
			for _, cl := range n.Cl {
				walk(cl.C)
			}
		}
	}
	walk(out)
	return out
}

func inFilts(l []filt, name string) bool {
	for _, f := range l {
		if f.name == name {
			return true
		}
	}
	return false
}

// Sweep generates a flat template (no control flow, so every site executes) that
// applies the focus filters n times to a few inputs with boundary-value arguments.
func (g *Gen) Sweep(e *Env, focus []filt, n int) []*TNode {
	g.env = e
	sc := scopeOf(e)
	var out, tail []*TNode
	deferred := g.r.Chance(0.5)
	for i := 0; i < n; i++ {
		f := pick(g.r, focus)
		var atom string
		switch {
		case inFilts(numFilters, f.name):
			atom = g.numAtom(sc)
		case inFilts(arrFilters, f.name) && len(sc.arrs) > 0:
			atom = pick(g.r, sc.arrs)
		default:
			atom = g.strAtom(sc)
			if f.name == "date" && g.r.Chance(0.8) {
				atom = quote(pick(g.r, dateWords)) // one of the layouts the library recognises
			}
		}
		g.hint = g.lenHint(atom)
		expr := atom + " | " + f.name + f.args(g, sc)
		g.hint = -1
		g.use("filter:" + f.name)
		if deferred {
			// results are kept and printed only after every application has run (one result
			// must not change because the filter was applied again to the same input)
			out = append(out, &TNode{K: "tag", S: fmt.Sprintf("assign r%d = %s", i, expr)})
			tail = append(tail, &TNode{K: "obj", S: fmt.Sprintf("r%d | json", i)}, &TNode{K: "text", S: "|"})
			continue
		}
		out = append(out, &TNode{K: "obj", S: expr}, &TNode{K: "text", S: "|"})
	}
	return append(out, tail...)
}

// Template generates one template tree.
func (g *Gen) Template(e *Env) []*TNode {
	g.env = e
	g.mapPaths = nil
	var walk func(prefix string, v *LV, depth int)
	walk = func(prefix string, v *LV, depth int) {
		if v.T != "map" || depth > 3 {
			return
		}
		for i, k := range v.K {
			if i < len(v.A) && v.A[i].T == "map" && !strings.ContainsAny(k, " .") && k != "" {
				g.mapPaths = append(g.mapPaths, prefix+"."+k)
				walk(prefix+"."+k, v.A[i], depth+1)
			}
		}
	}
	for i, n := range e.Names {
		walk(n, e.Vals[i], 1)
	}
	ns := g.Nodes(scopeOf(e), 0, 8)
	g.fixErrors(ns)
	if g.r.Chance(0.02) {
		// the page starts with what a site generator would take for YAML front matter
		fm := []*TNode{{K: "text", S: "---\n"}, {K: "tag", S: "assign fm = " + g.scalarExpr(scopeOf(e))}, {K: "text", S: "title: x\n---\n"}}
		ns = append(fm, append(ns, &TNode{K: "obj", S: "fm"})...)
	}
	if g.r.Chance(0.03) {
		// deep nesting: the whole template inside 9..40 blocks, one per line
		for i, d := 0, pick(g.r, []int{9, 10, 12, 16, 17, 24, 33, 40}); i < d; i++ {
			head := pick(g.r, []string{"if true", "unless false", fmt.Sprintf("for w%d in (1..1)", i), "if n or true"})
			ns = []*TNode{{K: "block", S: head, C: append([]*TNode{{K: "text", S: "\n"}}, ns...)}}
		}
	}
	if g.r.Chance(0.02) {
		// a long flat page (100..260 top-level nodes), sometimes with several faulty tags far
		// apart: which error is reported must not depend on anything but the text
		sc := scopeOf(e)
		k := g.r.Range(100, 260)
		var bad []int
		if g.r.Chance(0.5) {
			for i, m := 0, g.r.Range(2, 4); i < m; i++ {
				bad = append(bad, g.r.Intn(k))
			}
		}
		for i := 0; i < k; i++ {
			switch {
			case intsContain(bad, i):
				ns = append(ns, &TNode{K: "tag", S: pick(g.r, []string{"no_such_tag", "nope", "assign = 3", "cycle", "for x", "unknown_tag arg"}) + fmt.Sprint(i%7)})
			case i%3 == 0:
				ns = append(ns, &TNode{K: "obj", S: pick(g.r, []string{g.numAtom(sc), g.strAtom(sc), g.intLit()})})
			default:
				ns = append(ns, &TNode{K: "text", S: pick(g.r, []string{"x", " ", "line\n", "."})})
			}
		}
	}
	return ns
}

func intsContain(l []int, x int) bool {
	for _, v := range l {
		if v == x {
			return true
		}
	}
	return false
}
