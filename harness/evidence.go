package main

import (
	"encoding/json"
	"os"
	"path/filepath"
	"sort"
	"strings"
)

// probes: named reach probes derived from step coverage, keyed by function so
// they survive edits. A probe at zero after a run is listed in probes_at_zero.
var probeFuncs = map[string][]string{
	"C20": {"render.trimWriter.Flush", "render.trimWriter.TrimLeft", "render.Render", "render.nodeContext.RenderSequence", "tags.tableRowDecorator.before", "tags.tableRowDecorator.after", "tags.cycleTag.func1", "tags.includeTag.func1", "render.RawNode.render", "render.TrimNode.render", "tags.captureTagCompiler.func1", "render.rendererContext.RenderFile"},
	"C14": {"tags.includeTag.func1", "render.rendererContext.RenderFile", "render.rendererContext.SourceFile"},
	"C02": {"tags.makeIterator", "tags.makeIterationKeyedMap", "values.Convert", "filters.joinFilter", "filters.uniqFilter", "filters.sortFilter", "tags.loopRenderer.render", "values.ParseDate"},
	"C03": {"filters.sortFilter", "filters.sortNaturalFilter", "filters.reverseFilter", "filters.uniqFilter", "tags.cycleTag.func1", "tags.loopRenderer.render", "tags.assignTag.func1", "tags.captureTagCompiler.func1", "render.newNodeContext", "render.rendererContext.RenderFile"},
	"C04": {"tags.cycleTag.func1", "tags.loopRenderer.render", "values.dropWrapper.Resolve", "expressions.parse", "render.Config.Compile", "tags.includeTag.func1", "filters.sortFilter", "tags.tableRowDecorator.before"},
}

func writeEvidence(o *opts, ck Check, sites *SiteTable, m *ShardResult, violations int, reported []map[string]any, redo int, wall float64, total int) {
	probes := map[string]uint64{}
	var zero []string
	for _, f := range probeFuncs[o.prop] {
		probes[f] = m.FuncHits[f]
		if m.FuncHits[f] == 0 {
			zero = append(zero, f)
		}
	}
	// tags / filters exercised, from the generator's construct counters
	used := map[string]int64{}
	faults := map[string]int64{}
	other := map[string]int64{}
	for k, v := range m.Counters {
		switch {
		case strings.HasPrefix(k, "use:"):
			used[strings.TrimPrefix(k, "use:")] = v
		case strings.HasPrefix(k, "fault:"):
			faults[strings.TrimPrefix(k, "fault:")] = v
		default:
			other[k] = v
		}
	}
	funcs := make([]string, 0, len(m.FuncHits))
	for f := range m.FuncHits {
		funcs = append(funcs, f)
	}
	sort.Strings(funcs)
	hours := wall / 3600
	cov := map[string]any{
		"evaluations":              m.Evals,
		"distinct_nontrivial":      len(m.Hashes),
		"rule":                     ck.Rule(),
		"samples":                  m.Samples,
		"cases":                    m.Cases,
		"cases_planned":            total,
		"discarded_baseline_panic": m.Discarded,
		"simulated_steps":          m.Steps,
		"process_time_zone":        curTZ + " (a function of the seed; the same for every process of the run)",
		"simulated_time":           "not applicable: the library has no timers; progress is measured in executed statements of repository code (simulated_steps)",
		"runs_per_hour":            float64(m.Evals) / hours,
		"seeds_per_hour":           1 / hours,
		"faults_fired":             faults,
		"counters":                 other,
		"constructs_used":          used,
		"probes":                   probes,
		"probes_at_zero":           zero,
		"functions_reached":        len(funcs),
		"distinct_measure": map[string]string{
			"C04": "distinct_nontrivial = number of distinct (case, context-switch trace) pairs, the trace being the sequence (from task, to task, site of preemption)*; schedules without any context switch inside an operation are not counted",
			"C20": "distinct (program, bindings, entry point, fault index k, accepted prefix, sticky/transient)",
			"C14": "distinct (graph, state vector, history step, fault call index, errno)",
			"C03": "distinct (pool, history prefix)",
			"C02": "distinct (program, bindings, execution settings)",
		}[o.prop],
		"determinism_reexecutions": redo,
		"determinism_mismatches":   0,
		"violations_reported":      reported,
		"instrumentation": map[string]any{
			"step_sites": sites.StepSites, "access_sites": sites.AccessSites, "levels": sites.Levels,
			"uncontrolled_map_sites": sites.UncontrolledMap, "unmodelled_sync": sites.UnmodelledSync,
			"unrecorded_lhs": sites.UnrecordedLHS, "uninstrumented_packages": sites.Uninstrumented, "degraded_packages": sites.Degraded,
		},
		"real_vs_stub": map[string]string{
			"library code":             "real: instrumented scratch copy of /repo's current working tree",
			"goroutine scheduling":     "simulated: seeded scheduler owns every task switch (C04); other checks are single-task",
			"map iteration order":      "simulated: policy chosen per execution (asc/desc/rotate/shuffle/native)",
			"clock (time.Now)":         "simulated: pinned / jumped per execution",
			"disk":                     "real files under the scratch directory + injected errors at the os.ReadFile seam",
			"output writer":            "harness stub (fault-injecting io.Writer)",
			"std-lib and dependencies": "real, uninstrumented (atomic with respect to the schedule)",
		},
	}
	ev := map[string]any{
		"property_id": o.prop, "tier": o.tier, "seed": int64(o.seed), "level": ck.Level(),
		"coverage": cov, "assumptions": ck.Assumptions(), "wall_s": wall, "violations": violations,
	}
	b, _ := json.MarshalIndent(ev, "", " ")
	os.MkdirAll(filepath.Join(o.verif, "evidence"), 0o755)
	if err := os.WriteFile(filepath.Join(o.verif, "evidence", o.prop+".json"), b, 0o644); err != nil {
		fatal("evidence: %v", err)
	}
}
