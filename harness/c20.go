package main

import (
	"encoding/json"
	"errors"
	"fmt"
	"io/fs"
	"os"
	"path/filepath"
	"strings"
	"syscall"
	"time"

	"github.com/osteele/liquid"
	"verif.local/simrt"
)

// C20: a failing output writer stops the render with an error, never a panic.
type c20 struct{}

func init() { checks["C20"] = c20{} }

func (c20) Level() string { return "fault_enumeration" }
func (c20) NumCases(tier string) int {
	if tier == "thorough" {
		return 150000
	}
	return 5000
}
func (c20) Rule() string {
	return "case = generated (engine config, template tree, bindings[, cached include files]) x entry point (FRender / ParseAndFRender); a fault-free render records the W Write calls; then for EVERY write index k in [0,W) (sampled to 400 incl. first/last 50 when W>400), accept in {0, random strict prefix, len-1} and mode in {sticky, transient} the render is repeated with the writer failing at call k. An execution is non-trivial if the fault fired and W>=2; distinct by hash(template source, bindings, entry point, k, accept, mode)."
}
func (c20) Assumptions() []string {
	return []string{
		"the writer is the only faulty component; disk, clock and map order are pinned (asc, fixed instant)",
		"post-failure Write attempts are counted (probe), not treated as violations; which line the error names is not checked (C07)",
		"cases whose fault-free baseline panics are discarded and counted (C01 is not claimed)",
		"exhaustive in the fault index per sampled program, not in programs",
	}
}

const c20Root = "/nonexistent-verif-root"

type C20Case struct {
	Cfg     EngCfg              `json:"cfg"`
	Env     *Env                `json:"env"`
	Tree    []*TNode            `json:"tree"`
	Source  string              `json:"source"` // informational: Source(Tree)
	Inc     map[string][]*TNode `json:"inc,omitempty"`
	EP      int                 `json:"entry_point"`
	StrW    bool                `json:"string_writer,omitempty"` // the writer also implements io.StringWriter
	ErrKind int                 `json:"error_kind,omitempty"`    // index into errKinds: the value the writer fails with
	// the failing execution (set on violations)
	K      int  `json:"k"`
	Accept int  `json:"accept"`
	Sticky bool `json:"sticky"`
	W      int  `json:"fault_free_writes,omitempty"`
}

func genC20(r *Rng) *C20Case {
	cs := &C20Case{Cfg: genCfg(r, 0.15)}
	cs.Cfg.apply() // Source() during generation must already use this case's delimiters
	cs.Env = GenEnv(r.Fork(1), 0, 5)
	g := NewGen(r.Fork(2), r.Range(4, 40))
	if r.Chance(0.3) {
		g.incArgs = []string{`"inc0.html"`, `"inc1.html"`}
		cs.Inc = map[string][]*TNode{}
		for _, n := range []string{"inc0.html", "inc1.html"} {
			ig := NewGen(r.Fork(strSeed(n)), r.Range(2, 10))
			if r.Chance(0.3) {
				ig.loop = 1 // the file is meant to be included from inside a loop: cycle / break / continue at its top level
			}
			cs.Inc[n] = ig.Template(cs.Env)
		}
	}
	cs.Tree = g.Template(cs.Env)
	cs.Source = Source(cs.Tree)
	cs.EP = pick(r, []int{EPFRender, EPFRender, EPParseAndFRender})
	cs.StrW = r.Chance(0.3)
	if r.Chance(0.3) {
		cs.ErrKind = r.Range(1, len(errKinds)-1)
	}
	return cs
}

type c20Exec struct {
	eng *liquid.Engine
	tpl *liquid.Template
	cs  *C20Case
	src string
	b   map[string]any // built once per case: addresses stay fixed across its executions
}

func c20Setup(cs *C20Case) (*c20Exec, Res) {
	cs.Cfg.apply()
	x := &c20Exec{cs: cs, src: Source(cs.Tree), b: cs.Env.Build(nil)}
	x.eng = NewEngine(cs.Cfg)
	names := make([]string, 0, len(cs.Inc))
	for n := range cs.Inc {
		names = append(names, n)
	}
	sortStrings(names)
	for _, n := range names {
		path := n
		if cs.EP == EPFRender {
			path = filepath.Join(c20Root, n)
		}
		r := guard(func() Res {
			if _, err := x.eng.ParseTemplateAndCache([]byte(Source(cs.Inc[n])), path, 1); err != nil {
				return errRes(err, "parse")
			}
			return Res{OK: true}
		})
		if !r.OK {
			return nil, r
		}
	}
	if cs.EP == EPFRender {
		p := ParseLoc(x.eng, x.src, filepath.Join(c20Root, "root.html"), 1)
		if p.T == nil {
			return nil, p.Err
		}
		x.tpl = p.T
	} else {
		p := Parse(x.eng, x.src)
		if p.T == nil {
			return nil, p.Err
		}
	}
	return x, Res{OK: true}
}

func (x *c20Exec) run(w *FaultWriter) Res {
	simrt.SetMapOrder(simrt.OrderAsc, 0)
	simrt.SetClock(time.Unix(1700000000, 0).UTC())
	if w.Err == nil {
		w.Err = errKinds[x.cs.ErrKind%len(errKinds)]
	}
	if x.cs.StrW {
		return Run(x.cs.EP, x.eng, x.tpl, x.src, x.b, FaultStringWriter{w})
	}
	return Run(x.cs.EP, x.eng, x.tpl, x.src, x.b, w)
}

type c20Fail struct {
	clause, detail, sig string
	k, accept           int
	sticky              bool
}

// c20Judge applies the oracle to one faulted execution.
func c20Judge(res Res, w *FaultWriter, base []byte) (clause, detail, sig string) {
	if !w.Fired {
		return "", "", ""
	}
	mode := "transient"
	if w.Sticky {
		mode = "sticky"
	}
	if res.Panic != "" {
		fn := res.Frame
		if i := strings.Index(fn, " ("); i >= 0 {
			fn = fn[:i]
		}
		return "no-panic", fmt.Sprintf("panic %q at %s (writer failed at call %d, accepted %d, %s)", res.Panic, res.Frame, w.K, len(w.Accepted), mode), "no-panic|" + fn
	}
	if res.OK || res.raw == nil {
		return "returns-error", fmt.Sprintf("call returned success although Write call %d failed (%s)", w.K, mode), "returns-error|" + mode
	}
	if !carriesErr(res.raw, w.fail()) {
		return "carries-failure", fmt.Sprintf("returned error %q does not carry the writer's failure (call %d, %s)", res.Err, w.K, mode), "carries-failure|" + mode
	}
	if !strings.HasPrefix(string(base), string(w.Accepted)) {
		return "accepted-is-prefix", fmt.Sprintf("bytes accepted before the failure %q are not a prefix of the fault-free output %q", w.Accepted, base), "accepted-is-prefix"
	}
	return "", "", ""
}

// faultPlan enumerates (k, accept, sticky) for a baseline of W calls.
func c20Plan(r *Rng, calls [][]byte) []c20Fail {
	W := len(calls)
	ks := []int{}
	if W <= 400 {
		for k := 0; k < W; k++ {
			ks = append(ks, k)
		}
	} else {
		seen := map[int]bool{}
		for k := 0; k < 50; k++ {
			seen[k], seen[W-1-k] = true, true
		}
		for len(seen) < 400 {
			seen[r.Intn(W)] = true
		}
		for k := 0; k < W; k++ {
			if seen[k] {
				ks = append(ks, k)
			}
		}
	}
	var plan []c20Fail
	for _, k := range ks {
		n := len(calls[k])
		accs := map[int]bool{0: true}
		if n > 1 {
			accs[n-1] = true
			accs[r.Range(1, n-1)] = true
		}
		for a := 0; a < n || a == 0; a++ {
			if !accs[a] {
				continue
			}
			plan = append(plan, c20Fail{k: k, accept: a, sticky: true}, c20Fail{k: k, accept: a, sticky: false})
		}
	}
	return plan
}

// c20Find runs the whole enumeration for cs; it returns failures (one per
// distinct signature, the first found) and statistics.
func c20Find(c *Ctx, cs *C20Case, r *Rng, out *CaseOut, wantSig string) []c20Fail {
	x, pres := c20Setup(cs)
	if x == nil {
		if pres.Panic != "" {
			out.Discarded = true
		}
		if c != nil {
			c.logf("setup: %s", pres.Key())
		}
		return nil
	}
	base := &FaultWriter{K: -1}
	stepsBefore := simrt.Steps
	bres := x.run(base)
	baseSteps := int(simrt.Steps - stepsBefore)
	if c != nil {
		c.logf("base: %s W=%d", bres.Key(), len(base.Calls))
	}
	if bres.Panic != "" {
		out.Discarded = true
		return nil
	}
	out.Evals++
	// k = W: no fault fires; must reproduce the baseline exactly (guards the harness)
	again := &FaultWriter{K: len(base.Calls)}
	ares := x.run(again)
	if ares.Key() != bres.Key() || string(again.Accepted) != string(base.Accepted) {
		// Two fault-free renders disagree: there is no well-defined fault-free output to
		// judge prefixes against. That is a C02/C03 matter; this case gives no C20 verdict.
		if c != nil {
			c.count("unstable_fault_free_baseline", 1)
			c.logf("unstable baseline")
		}
		out.Discarded = true
		return nil
	}
	var fails []c20Fail
	sigs := map[string]bool{}
	W := len(base.Calls)
	cs.W = W
	// Two caller tasks FRender the same parsed template at the same time, each into its
	// own writer failing with its own error value at its own write index, under one
	// seeded schedule: each call must return an error carrying ITS writer's failure.
	if x.tpl != nil && W >= 1 && (wantSig == "" || strings.HasPrefix(wantSig, "concurrent|")) {
		if f, ok := x.concurrent(r, base.Accepted, W); ok {
			out.Evals++
			if c != nil {
				c.count("fault:preemption_runs", 1)
			}
			if f.clause != "" && (wantSig == "" || wantSig == f.sig) {
				sigs[f.sig] = true
				fails = append(fails, f)
				if wantSig != "" {
					return fails
				}
			}
		}
	}
	// Destinations that are real files: a descriptor opened read-only, /dev/full, the write
	// end of a pipe whose read end is closed. Every write fails (EBADF, ENOSPC, EPIPE) with
	// an error value the operating system makes; the call must fail and carry it.
	if W >= 1 && len(base.Accepted) > 0 && (wantSig == "" || strings.HasPrefix(wantSig, "osfile|")) {
		for kind := 0; kind < 3; kind++ {
			f, ok := failingFile(kind)
			if !ok {
				if c != nil {
					c.count("osfile_destination_unavailable", 1)
				}
				continue
			}
			simrt.SetMapOrder(simrt.OrderAsc, 0)
			simrt.SetClock(time.Unix(1700000000, 0).UTC())
			res := Run(x.cs.EP, x.eng, x.tpl, x.src, x.b, f)
			f.Close()
			out.Evals++
			name := []string{"read-only descriptor", "/dev/full", "closed pipe"}[kind]
			if c != nil {
				c.count("fault:osfile_"+[]string{"ebadf", "enospc", "epipe"}[kind], 1)
				c.logf("osfile %d: ok=%v panic=%q", kind, res.OK, res.Panic)
			}
			var ff c20Fail
			ff.k = -1 - kind
			switch {
			case res.Panic != "":
				ff.clause, ff.sig, ff.detail = "no-panic", "osfile|no-panic", fmt.Sprintf("panic %q at %s (destination: %s)", res.Panic, res.Frame, name)
			case res.OK || res.raw == nil:
				ff.clause, ff.sig, ff.detail = "returns-error", "osfile|returns-error", fmt.Sprintf("call returned success although every Write to the destination (an *os.File: %s) fails", name)
			case !carriesOSError(res.raw):
				ff.clause, ff.sig, ff.detail = "carries-failure", "osfile|carries-failure", fmt.Sprintf("returned error %q does not carry the operating system's write error (destination: %s)", res.Err, name)
			}
			if ff.clause != "" && !sigs[ff.sig] && (wantSig == "" || wantSig == ff.sig) {
				sigs[ff.sig] = true
				fails = append(fails, ff)
				if wantSig != "" {
					return fails
				}
			}
		}
	}
	plan := c20Plan(r, base.Calls)
	// A step budget per case (about 30M step points): where one render is expensive, the plan
	// is thinned evenly over the write indices instead of being enumerated in full.
	if maxExec := 30_000_000 / (baseSteps + 1); maxExec < len(plan) {
		if maxExec < 60 {
			maxExec = 60
		}
		if maxExec < len(plan) {
			thin := make([]c20Fail, 0, maxExec)
			for i := 0; i < maxExec; i++ {
				thin = append(thin, plan[i*len(plan)/maxExec])
			}
			if c != nil {
				c.count("fault_plan_thinned_cases", 1)
				c.count("fault_plan_executions_left_out", int64(len(plan)-len(thin)))
			}
			plan = thin
		}
	}
	for _, f := range plan {
		w := &FaultWriter{K: f.k, Accept: f.accept, Sticky: f.sticky}
		res := x.run(w)
		out.Evals++
		if c != nil {
			c.logf("k=%d a=%d s=%v: %s acc=%d post=%d", f.k, f.accept, f.sticky, res.Key(), len(w.Accepted), w.PostCalls)
			if w.Fired {
				c.count("fault:writer_error", 1)
				if f.accept > 0 {
					c.count("fault:writer_short_write", 1)
				}
				if f.sticky {
					c.count("fault:writer_sticky", 1)
				} else {
					c.count("fault:writer_transient", 1)
				}
				if w.PostCalls > 0 {
					c.count("write_attempts_after_failure", int64(w.PostCalls))
				}
				if W >= 2 {
					out.Hashes = append(out.Hashes, hashStr(x.src, Snapshot(cs.Env), fmt.Sprint(cs.EP, f.k, f.accept, f.sticky)))
				}
			}
		}
		clause, detail, sig := c20Judge(res, w, base.Accepted)
		if clause != "" && !sigs[sig] && (wantSig == "" || wantSig == sig) {
			sigs[sig] = true
			f.clause, f.detail, f.sig = clause, detail, sig
			fails = append(fails, f)
			if wantSig != "" {
				return fails
			}
		}
	}
	return fails
}

// failingFile opens an *os.File every write to which fails.
func failingFile(kind int) (*os.File, bool) {
	switch kind {
	case 0:
		f, err := os.Open("/dev/null") // read-only: write gives EBADF
		return f, err == nil
	case 1:
		f, err := os.OpenFile("/dev/full", os.O_WRONLY, 0) // write gives ENOSPC
		return f, err == nil
	default:
		r, w, err := os.Pipe()
		if err != nil {
			return nil, false
		}
		r.Close() // write gives EPIPE (no signal: not descriptor 1 or 2)
		return w, true
	}
}

// carriesOSError: the chain (Cause / Unwrap) reaches an *fs.PathError or a syscall.Errno.
func carriesOSError(err error) bool {
	for i := 0; err != nil && i < 30; i++ {
		switch err.(type) {
		case *fs.PathError, syscall.Errno:
			return true
		}
		if c, ok := err.(interface{ Cause() error }); ok && c.Cause() != nil && c.Cause() != err {
			err = c.Cause()
			continue
		}
		err = errors.Unwrap(err)
	}
	return false
}

var errWriterA, errWriterB = errors.New("verif-writer-A-failed-51c2"), errors.New("verif-writer-B-failed-9e07")

func (x *c20Exec) concurrent(r *Rng, base []byte, W int) (c20Fail, bool) {
	simrt.SetMapOrder(simrt.OrderAsc, 0)
	simrt.SetClock(time.Unix(1700000000, 0).UTC())
	before := simrt.Steps
	if lone := Run(EPFRender, x.eng, x.tpl, x.src, x.b, &FaultWriter{K: -1}); lone.Panic != "" {
		return c20Fail{}, false
	}
	steps := int64(simrt.Steps - before)
	ws := [2]*FaultWriter{{K: r.Intn(W), Sticky: true, Err: errWriterA}, {K: r.Intn(W), Sticky: true, Err: errWriterB}}
	var res [2]Res
	fns := []func(){
		func() { res[0] = Run(EPFRender, x.eng, x.tpl, x.src, x.b, ws[0]) },
		func() { res[1] = Run(EPFRender, x.eng, x.tpl, x.src, x.b, ws[1]) },
	}
	q := int64(pick(r, []int{2, 9, 60, 400}))
	rr := simrt.RunTasks(fns, []int64{steps*50 + 10000, steps*50 + 10000}, func(run []int, last int, _ uint32) (int, int64) {
		return run[r.Intn(len(run))], 1 + int64(r.U64()%uint64(q))
	})
	f := c20Fail{k: ws[0].K, sticky: true}
	if rr.Deadlock || len(rr.Overrun) > 0 {
		f.clause, f.sig, f.detail = "returns-error", "concurrent|progress", "two concurrent FRender calls with failing writers did not both return"
		return f, true
	}
	for i := 0; i < 2; i++ {
		own, other := ws[i].fail(), ws[1-i].fail()
		switch {
		case !ws[i].Fired:
		case res[i].Panic != "":
			f.clause, f.sig, f.detail = "no-panic", "concurrent|no-panic", fmt.Sprintf("concurrent FRender %d panicked: %q at %s", i, res[i].Panic, res[i].Frame)
		case res[i].OK || res[i].raw == nil:
			f.clause, f.sig, f.detail = "returns-error", "concurrent|returns-error", fmt.Sprintf("of two concurrent FRender calls on one template, call %d returned success although its writer failed at write %d", i, ws[i].K)
		case !carriesErr(res[i].raw, own):
			what := "does not carry its writer's failure"
			if carriesErr(res[i].raw, other) {
				what = "carries the OTHER call's writer failure"
			}
			f.clause, f.sig, f.detail = "carries-failure", "concurrent|carries-failure", fmt.Sprintf("of two concurrent FRender calls on one template, the error returned by call %d (%q) %s", i, res[i].Err, what)
		case !strings.HasPrefix(string(base), string(ws[i].Accepted)):
			f.clause, f.sig, f.detail = "accepted-is-prefix", "concurrent|accepted-is-prefix", fmt.Sprintf("concurrent FRender %d: accepted bytes %q are not a prefix of the fault-free output", i, ws[i].Accepted)
		}
	}
	return f, true
}

func (ck c20) RunCase(c *Ctx, idx int) *CaseOut {
	wrapIncludes = false
	r := NewRng(c.Seed, strSeed("C20"), uint64(idx))
	cs := genC20(r)
	out := &CaseOut{}
	fails := c20Find(c, cs, r.Fork(9), out, "")
	for k := range usedOf(cs) {
		c.count("use:"+k, 1)
	}
	for _, f := range fails {
		out.Violations = append(out.Violations, c20Violation(c, cs, f, idx))
	}
	out.Digest = c.takeDigest()
	if idx%97 == 0 {
		out.Sample = map[string]any{"source": cs.Source, "entry_point": epNames[cs.EP], "fault_free_writes": cs.W, "bindings": cs.Env, "strict": cs.Cfg.Strict}
	}
	return out
}

func c20Violation(c *Ctx, cs *C20Case, f c20Fail, idx int) *Violation {
	orig := *cs
	orig.K, orig.Accept, orig.Sticky = f.k, f.accept, f.sticky
	ob, _ := json.Marshal(orig)
	if !c.mayMinimise(f.sig) {
		return &Violation{Property: c.Prop, Clause: f.clause, Detail: f.detail, Signature: f.sig, Seed: c.Seed, Index: idx, Case: ob}
	}
	// minimise: smaller tree / env / includes that still fail the same clause
	deadline := time.Now().Add(20 * time.Second)
	cur := orig
	test := func(cand *C20Case) (c20Fail, bool) {
		o := &CaseOut{}
		fs := c20Find(nil, cand, NewRng(1), o, f.sig)
		if len(fs) > 0 {
			return fs[0], true
		}
		return c20Fail{}, false
	}
	cur.Tree = minimiseTree(cur.Tree, deadline, func(t []*TNode) bool {
		cand := cur
		cand.Tree = t
		_, ok := test(&cand)
		return ok
	})
	cur.Env = minimiseEnv(cur.Env, deadline, func(e *Env) bool {
		cand := cur
		cand.Env = e
		_, ok := test(&cand)
		return ok
	})
	mf, ok := test(&cur)
	v := &Violation{Property: "C20", Clause: f.clause, Detail: f.detail, Signature: f.sig, Seed: c.Seed, Index: idx, Original: ob}
	if ok {
		cur.K, cur.Accept, cur.Sticky = mf.k, mf.accept, mf.sticky
		cur.Source = Source(cur.Tree)
		v.Detail = mf.detail
		v.Minimised = true
		v.Case, _ = json.Marshal(cur)
	} else {
		v.Case = ob
	}
	return v
}

func (ck c20) Replay(c *Ctx, v *Violation) *Violation {
	var cs C20Case
	if err := json.Unmarshal(v.Case, &cs); err != nil {
		fatal("replay: %v", err)
	}
	// The whole fault enumeration of the case is re-executed (not only the failing
	// execution): a failure may need the residue of the faulted render before it.
	out := &CaseOut{}
	for _, f := range c20Find(nil, &cs, NewRng(1), out, v.Signature) {
		fmt.Printf("replay: template %q entry=%s k=%d accept=%d sticky=%v -> %s\n", Source(cs.Tree), epNames[cs.EP], f.k, f.accept, f.sticky, f.detail)
		return &Violation{Property: "C20", Clause: f.clause, Detail: f.detail, Signature: f.sig}
	}
	return nil
}

// usedOf lists the constructs a case's templates contain (coverage reporting).
func usedOf(cs *C20Case) map[string]bool {
	u := map[string]bool{}
	constructs(cs.Tree, u)
	for _, t := range cs.Inc {
		constructs(t, u)
	}
	return u
}
