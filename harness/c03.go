package main

import (
	"bytes"
	"encoding/json"
	"fmt"
	"os"
	"os/exec"
	"path/filepath"
	"regexp"
	"strings"
	"time"

	"github.com/osteele/liquid"
	"verif.local/simrt"
)

// C03: rendering never modifies bindings or the template; renders are independent.
type c03 struct{}

func init() { checks["C03"] = c03{} }

func (c03) Level() string { return "exploration" }
func (c03) NumCases(tier string) int {
	if tier == "thorough" {
		return 400000
	}
	return 12000
}
func (c03) Rule() string {
	return "case = one engine, a pool of 3..8 generated templates (emphasis: array filters sort/sort_natural/reverse/uniq/concat/compact/map, loops with cycle, assign/capture of names that shadow bindings, cached includes) and 2..5 binding environments that share slices/maps by reference, plus a seeded history of 2..40 steps: render(t,b) through a random entry point; render aborted by a writer that fails at a random write k; parse-and-render of a fresh copy of a pool source; render of an unrelated pair. Reference model: render is a pure function -- expected[(t,b)] computed in isolation (fresh engine, fresh parse, freshly built equal bindings). After EVERY step: the fault-free result equals expected, and the canonical deep snapshot (types, contents, pointer structure, unexported fields) of every environment equals its snapshot before the history. Non-trivial step: it follows at least one other step; distinct by hash(pool, history prefix)."
}
func (c03) Assumptions() []string {
	return []string{
		"map order pinned asc and clock pinned so that a C02 defect cannot leak into this verdict",
		"generated bindings contain no pointers nested below the top level (their fmt rendering would print addresses; see C02 known findings)",
		"harness Drops, tags and filters are pure",
	}
}

type C03Step struct {
	Kind   string `json:"kind"` // render fault parse
	T      int    `json:"t"`
	B      int    `json:"b"`
	EP     int    `json:"ep"`
	K      int    `json:"k,omitempty"`
	Accept int    `json:"accept,omitempty"`
}

type C03Alias struct {
	Env, FromEnv   int
	Name, FromName string
}

type C03Case struct {
	Cfg     EngCfg              `json:"cfg"`
	Envs    []*Env              `json:"envs"`
	Aliases []C03Alias          `json:"aliases,omitempty"`
	Trees   [][]*TNode          `json:"trees"`
	Sources []string            `json:"sources"`
	Inc     map[string][]*TNode `json:"inc,omitempty"`
	Steps   []C03Step           `json:"steps"`
	HxGen   int                 `json:"hx_generation,omitempty"` // how often the filter hx has been registered again so far (state of the history)
	FailAt  int                 `json:"fail_at_step"`
	Prefix  *C02Prefix          `json:"process_history,omitempty"` // earlier cases of the shard process the divergence was seen in
}

func genC03(r *Rng) *C03Case {
	cs := &C03Case{Cfg: genCfg(r, 0.1)}
	cs.Cfg.apply() // Source() during generation must already use this case's delimiters
	ne := r.Range(2, 5)
	lo, hi := 0, 5
	if r.Chance(0.15) {
		lo, hi = 16, 24 // maps well beyond any small-size special case
		if r.Chance(0.5) {
			lo, hi = 33, 36 // ... and beyond 32 (there are 36 key words)
		}
	}
	for i := 0; i < ne; i++ {
		cs.Envs = append(cs.Envs, GenEnv(r.Fork(uint64(100+i)), lo, hi))
	}
	for i := 1; i < ne; i++ {
		if r.Chance(0.6) {
			from := r.Intn(i)
			for _, n := range []string{"arr", "nums", "recs", "m"} {
				if r.Chance(0.5) {
					cs.Aliases = append(cs.Aliases, C03Alias{Env: i, FromEnv: from, Name: n, FromName: n})
				}
			}
		}
	}
	incArgs := []string(nil)
	if r.Chance(0.4) {
		incArgs = []string{`"inc0.html"`, `"inc1.html"`}
		cs.Inc = map[string][]*TNode{}
		for _, n := range []string{"inc0.html", "inc1.html"} {
			ig := NewGen(r.Fork(strSeed(n)), r.Range(2, 10))
			if r.Chance(0.3) {
				ig.loop = 1 // the file is meant to be included from inside a loop: cycle / break / continue at its top level
			}
			cs.Inc[n] = ig.Template(cs.Envs[0])
		}
	}
	nt := r.Range(3, 8)
	var focus []filt
	if r.Chance(0.5) {
		focus = pickFocus(r.Fork(77)) // the same few filters, with varied arguments, across the whole pool
	}
	for i := 0; i < nt; i++ {
		g := NewGen(r.Fork(uint64(200+i)), r.Range(4, 30))
		g.focus = focus
		g.ArrEmphasis = r.Chance(0.7)
		if lo > 0 {
			g.ArrEmphasis, g.MapEmphasis = false, true // big maps: iterate them
		}
		g.incArgs = incArgs
		if r.Chance(0.6) {
			g.feat["cycle"], g.feat["assign"], g.feat["capture"], g.feat["nest"] = true, true, true, true
		}
		t := g.Template(cs.Envs[0])
		if focus != nil && i < 2 {
			t = g.Sweep(cs.Envs[0], focus, r.Range(5, 12)) // two flat sweeps of the focus filters lead the pool
		}
		if i > 0 && r.Chance(0.3) {
			t = g.Sibling(cs.Trees[r.Intn(i)], cs.Envs[0]) // same inputs and filters as an earlier template, other arguments
		}
		cs.Trees = append(cs.Trees, t)
	}
	dumpT := -1
	if lo > 0 {
		// a flat template that walks both map bindings and prints every key and value
		dumpT = len(cs.Trees)
		var d []*TNode
		for _, m := range []string{"m", "m2"} {
			d = append(d, &TNode{K: "block", S: "for kv in " + m, C: []*TNode{{K: "obj", S: "kv[0]"}, {K: "text", S: "="}, {K: "obj", S: "kv[1]"}, {K: "text", S: ";"}}})
		}
		cs.Trees = append(cs.Trees, d)
		nt++
	}
	for _, t := range cs.Trees {
		cs.Sources = append(cs.Sources, Source(t))
	}
	ns := r.Range(2, 40)
	if r.Chance(0.6) {
		ns = r.Range(2, 8)
	}
	for i := 0; i < ns; i++ {
		st := C03Step{T: r.Intn(nt), B: r.Intn(ne)}
		switch r.weighted([]int{6, 3, 2, 1}) {
		case 0:
			st.Kind, st.EP = "render", r.Intn(3)
		case 1:
			st.Kind, st.EP, st.K, st.Accept = "fault", pick(r, []int{EPFRender, EPParseAndFRender}), r.Intn(12), r.Intn(3)
		case 2:
			st.Kind, st.EP = "parse", 3+r.Intn(3)
		default: // a render during which the k-th harness callback (tag/block/filter) fails or panics
			st.Kind, st.EP, st.K = "cbfault", r.Intn(NumEP), 1+r.Intn(6)
		}
		if r.Chance(0.08) {
			// the CALLER changes a value inside one of its own maps (same object, same
			// size) between two renders: later renders must see the new value
			st = C03Step{Kind: "mutate", B: st.B, K: r.Intn(1000)}
			if dumpT >= 0 {
				cs.Steps = append(cs.Steps, C03Step{Kind: "render", T: dumpT, B: st.B, EP: r.Intn(3)})
			}
		}
		if r.Chance(0.04) {
			// the filter hx is registered again (a sibling closure) between two renders
			st = C03Step{Kind: "rereg", B: st.B}
		}
		cs.Steps = append(cs.Steps, st)
		if st.Kind == "mutate" || st.Kind == "rereg" {
			// ... and then renders again something it rendered with that environment before
			for j := len(cs.Steps) - 2; j >= 0; j-- {
				if p := cs.Steps[j]; (p.B == st.B || st.Kind == "rereg") && (p.Kind == "render" || p.Kind == "parse") {
					cs.Steps = append(cs.Steps, p)
					break
				}
			}
		}
	}
	return cs
}

// buildEnvs builds all environments and applies the aliases (shared references).
func (cs *C03Case) buildEnvs() []map[string]any {
	out := make([]map[string]any, len(cs.Envs))
	for i, e := range cs.Envs {
		out[i] = e.Build(nil)
	}
	for _, a := range cs.Aliases {
		if v, ok := out[a.FromEnv][a.FromName]; ok {
			out[a.Env][a.Name] = v
		}
	}
	return out
}

func c03Engine(cs *C03Case) (*liquid.Engine, Res) {
	cs.Cfg.apply()
	e := NewEngine(cs.Cfg)
	if cs.HxGen > 0 {
		registerHx(e, cs.HxGen)
	}
	names := make([]string, 0, len(cs.Inc))
	for n := range cs.Inc {
		names = append(names, n)
	}
	sortStrings(names)
	for _, n := range names {
		for _, path := range []string{n, filepath.Join(c20Root, n)} {
			r := guard(func() Res {
				if _, err := e.ParseTemplateAndCache([]byte(Source(cs.Inc[n])), path, 1); err != nil {
					return errRes(err, "parse")
				}
				return Res{OK: true}
			})
			if !r.OK {
				return nil, r
			}
		}
	}
	return e, Res{OK: true}
}

func c03Pin() {
	simrt.SetMapOrder(simrt.OrderAsc, 0)
	simrt.SetClock(t0)
}

// expected computes render(t, b) in isolation.
func c03Expected(cs *C03Case, t, b int, ep int) Res {
	c03Pin()
	noScribble = true // the reference keeps its parse buffer intact; the history reuses its buffers
	defer func() { noScribble = false }()
	e, r := c03Engine(cs)
	if e == nil {
		return r
	}
	envs := cs.buildEnvs()
	src := Source(cs.Trees[t])
	var tpl *liquid.Template
	if ep < EPParseAndRender {
		p := ParseLoc(e, src, filepath.Join(c20Root, "root.html"), 1)
		if p.T == nil {
			p.Err.Stage = ""
			return p.Err
		}
		tpl = p.T
	}
	res := Run(ep, e, tpl, src, envs[b], nil)
	res.Stage = ""
	return res
}

// c03Exp (mode c03exp): a pristine child process computes expected[(t,b)] of the
// case given on stdin (nothing at all has run in it before).
func c03Exp() {
	simrt.SingleThreaded = true
	simrt.SimPools = true
	var in struct {
		Case     C03Case
		T, B, EP int
	}
	if err := json.NewDecoder(os.Stdin).Decode(&in); err != nil {
		fatal("c03exp: %v", err)
	}
	fmt.Print(c03Expected(&in.Case, in.T, in.B, in.EP).Key())
}

func c03Child(csJSON []byte, t, b, ep int) (string, bool) {
	cmd := exec.Command(os.Args[0], "c03exp", "-scratch", scratchRoot)
	cmd.Env = append(os.Environ(), "TZ="+curTZ)
	in, _ := json.Marshal(map[string]any{"Case": json.RawMessage(csJSON), "T": t, "B": b, "EP": ep})
	cmd.Stdin = bytes.NewReader(in)
	var so bytes.Buffer
	cmd.Stdout = &so
	cmd.Stderr = os.Stderr
	if err := cmd.Run(); err != nil {
		return "", false
	}
	return so.String(), true
}

type c03Fail struct {
	clause, detail, sig string
	step                int
}

// c03Mutate applies step st to the logical environment and to the live Go value:
// one value of a plain map[string]any binding is replaced (no key added or removed).
var lastMutated string
var lastMutatedLen int
var directLoop = regexp.MustCompile(`(for|tablerow) \w+ in (m|m2) (%|-|reversed|limit|offset|cols)`)

func c03Mutate(cs *C03Case, envs []map[string]any, st C03Step, si int) bool {
	for _, a := range cs.Aliases {
		if a.Env == st.B || a.FromEnv == st.B {
			return false // shared by reference with another environment: left alone
		}
	}
	e := cs.Envs[st.B]
	for _, name := range []string{"big", "m", "m2"} {
		v := e.get(name)
		if v == nil || v.T != "map" || v.R != "" || len(v.A) == 0 {
			continue
		}
		live, ok := envs[st.B][name].(map[string]any)
		if !ok {
			continue
		}
		i := st.K % len(v.A)
		if st.K%3 == 0 && len(v.A) >= 3 {
			// replace a KEY that is neither the smallest nor the largest by a new one (same
			// size, same extremes, same value)
			ks := append([]string{}, v.K...)
			sortStrings(ks)
			old := ks[1+st.K%(len(ks)-2)]
			nk := old + "x"
			if _, clash := live[nk]; !clash {
				for j := range v.K {
					if v.K[j] == old {
						v.K[j] = nk
					}
				}
				live[nk] = live[old]
				delete(live, old)
				lastMutated, lastMutatedLen = name, len(v.A)
				return true
			}
		}
		nv := fmt.Sprintf("mutated-by-caller-%d", si)
		v.A[i] = &LV{T: "str", S: nv}
		live[v.K[i]] = nv
		lastMutated, lastMutatedLen = name, len(v.A)
		return true
	}
	return false
}

func c03Find(c *Ctx, cs0 *C03Case, out *CaseOut, wantSig string) []c03Fail {
	csCopy := *cs0
	cs := &csCopy
	cs.Envs = nil
	for _, e := range cs0.Envs {
		cs.Envs = append(cs.Envs, cloneEnv(e)) // "mutate" steps change the logical environments
	}
	c03Pin()
	eng, r0 := c03Engine(cs)
	if eng == nil {
		if c != nil {
			c.logf("setup: %s", r0.Key())
		}
		out.Discarded = r0.Panic != ""
		return nil
	}
	envs := cs.buildEnvs()
	snaps := make([]string, len(envs))
	for i, e := range envs {
		snaps[i] = Snapshot(e)
	}
	tpls := make([]*liquid.Template, len(cs.Trees))
	srcs := make([]string, len(cs.Trees))
	for i, t := range cs.Trees {
		srcs[i] = Source(t)
		p := ParseLoc(eng, srcs[i], filepath.Join(c20Root, "root.html"), 1)
		tpls[i] = p.T // nil: parse error; steps that need it use the ParseAnd* form
	}
	tsnaps := make([]string, len(tpls))
	for i, t := range tpls {
		if t != nil {
			tsnaps[i] = Snapshot(t.GetRoot())
		}
	}
	exp := map[[3]int]Res{}
	expected := func(t, b, ep int) Res {
		cls := 0
		if ep >= EPParseAndRender {
			cls = 1 // different parse location
		}
		k := [3]int{t, b, cls}
		if r, ok := exp[k]; ok {
			return r
		}
		r := c03Expected(cs, t, b, ep)
		exp[k] = r
		return r
	}
	var fails []c03Fail
	seen := map[string]bool{}
	add := func(clause, detail string, step int) bool {
		sig := clause + "|" + cs.Steps[step].Kind
		if seen[sig] || (wantSig != "" && wantSig != sig) {
			return false
		}
		seen[sig] = true
		fails = append(fails, c03Fail{clause, detail, sig, step})
		return wantSig != ""
	}
	hist := ""
	lastOK, lastEP := -1, 0
	var lastRes Res
	var lastCase []byte // the case (logical environments) as of step lastOK, when mutate steps follow it
	type kept struct {
		res  Res
		step int
	}
	var retained []kept
	for si, st := range cs.Steps {
		if st.Kind == "rereg" {
			if lastOK >= 0 && lastCase == nil {
				lastCase, _ = json.Marshal(cs)
			}
			cs.HxGen++
			registerHx(eng, cs.HxGen)
			exp = map[[3]int]Res{} // every expectation was computed with the previous registration
			if c != nil {
				c.count("fault:filter_registered_again", 1)
			}
			continue
		}
		if st.Kind == "mutate" {
			if lastOK >= 0 && lastCase == nil {
				lastCase, _ = json.Marshal(cs) // environments as the last judged step saw them
			}
			if c03Mutate(cs, envs, st, si) {
				for k := range exp {
					if k[1] == st.B {
						delete(exp, k)
					}
				}
				snaps[st.B] = Snapshot(envs[st.B])
				if c != nil {
					c.count("fault:caller_mutates_binding", 1)
					if lastMutatedLen >= 16 {
						c.count("probe:mutated_map_of_16_or_more", 1)
						if si+1 < len(cs.Steps) && directLoop.MatchString(srcs[cs.Steps[si+1].T]) {
							c.count("probe:rerender_loops_directly_over_a_mutated_large_map", 1)
						}
					}
				}
			}
			continue
		}
		ep := st.EP
		if ep < EPParseAndRender && tpls[st.T] == nil {
			ep += 3
		}
		want := expected(st.T, st.B, ep)
		if want.Panic != "" {
			continue // the pair panics alone: a C01 matter
		}
		c03Pin()
		var res Res
		switch st.Kind {
		case "cbfault":
			cbCountdown = st.K
			res = Run(ep, eng, tpls[st.T], srcs[st.T], envs[st.B], nil)
			fired := cbCountdown == 0
			cbCountdown = 0
			if c != nil && fired {
				c.count("fault:callback_failure", 1)
			}
			// whatever it returned (error or the callback's panic) is not judged; what
			// follows must be unaffected
		case "fault":
			w := &FaultWriter{K: st.K, Accept: st.Accept, Sticky: true}
			res = Run(ep, eng, tpls[st.T], srcs[st.T], envs[st.B], w)
			if c != nil && w.Fired {
				c.count("fault:writer_abort", 1)
			}
			if res.Panic == "" && w.Fired && res.OK {
				if add("aborted-render-returns-error", fmt.Sprintf("step %d: render with a writer failing at call %d returned success", si, st.K), si) {
					return fails
				}
			}
			if res.Panic != "" {
				if add("no-panic", fmt.Sprintf("step %d (%s of template %d with env %d): panic %q at %s", si, st.Kind, st.T, st.B, res.Panic, res.Frame), si) {
					return fails
				}
			}
		default:
			res = Run(ep, eng, tpls[st.T], srcs[st.T], envs[st.B], nil)
			res.Stage = ""
			if res.Panic == "" {
				lastOK, lastEP, lastRes, lastCase = si, ep, res, nil
			}
			if strings.HasPrefix(res.Panic, "simrt: deadlock") {
				// the reference, computed in this same process, meets the same held lock: judged on its own
				if add("render-independent", fmt.Sprintf("step %d: %s of template %d %q with env %d can never finish: it waits for a lock that an EARLIER call of this process left held, and no other goroutine exists to release it", si, epNames[ep], st.T, clip(srcs[st.T]), st.B), si) {
					return fails
				}
			}
			if res.Key() != want.Key() {
				if add("render-independent", fmt.Sprintf("step %d: %s of template %d %q with env %d after %d earlier step(s) gives %s; alone on a fresh engine with equal bindings it gives %s", si, epNames[ep], st.T, clip(srcs[st.T]), st.B, si, clip(res.Key()), clip(want.Key())), si) {
					return fails
				}
			}
			if !res.OK && res.Out != "" {
				if add("no-output-on-error", fmt.Sprintf("step %d returned an error and output", si), si) {
					return fails
				}
			}
		}
		for _, k := range retained {
			if !k.res.Intact() {
				if add("returned-bytes-stable", fmt.Sprintf("the []byte returned by step %d (%q) was overwritten by step %d: it now reads %q", k.step, clip(k.res.Out), si, clip(string(k.res.bytes))), si) {
					return fails
				}
			}
		}
		retained = nil
		if res.bytes != nil {
			retained = append(retained, kept{res, si})
		}
		out.Evals++
		hist += fmt.Sprintf("%s/%d/%d/%d;", st.Kind, st.T, st.B, ep)
		if c != nil {
			c.logf("step %d %v: %s", si, st, res.Key())
			c.count("step:"+st.Kind, 1)
			if !res.OK {
				c.count("step_failed:"+st.Kind, 1)
			}
			if si > 0 {
				out.Hashes = append(out.Hashes, hashStr(strings.Join(srcs, "\x00"), hist))
			}
		}
		for i, t := range tpls {
			if t == nil || (i != st.T && si != len(cs.Steps)-1) {
				continue // the template just used after every step; all of them after the last
			}
			if s := Snapshot(t.GetRoot()); s != tsnaps[i] {
				// A change inside the render tree is reported as a probe only: what the
				// statement promises is behaviour ("rendered again ... byte-identical"), and a
				// correct memo inside a node changes no behaviour. Behavioural effects are
				// caught by the render-independent clause.
				if c != nil {
					c.count("probe:render_tree_snapshot_changed", 1)
				}
				tsnaps[i] = s
			}
		}
		for i, e := range envs {
			if s := Snapshot(e); s != snaps[i] {
				if add("bindings-unchanged", fmt.Sprintf("step %d (%s of template %d %q with env %d) changed binding environment %d: %s", si, st.Kind, st.T, clip(srcs[st.T]), st.B, i, diffAt(snaps[i], s)), si) {
					return fails
				}
				snaps[i] = s // report each change once
			}
		}
	}
	// Process-level state: the last fault-free step's result is also compared with
	// expected[(t,b)] computed in a PRISTINE child process. (The in-process reference is
	// computed on a fresh engine but in a process that has already rendered; state kept
	// at package level by earlier renders would pollute both sides equally.)
	if (c != nil || wantSig == "render-independent|process") && lastOK >= 0 {
		st := cs.Steps[lastOK]
		if lastCase == nil {
			lastCase, _ = json.Marshal(cs)
		}
		if key, ok := c03Child(lastCase, st.T, st.B, lastEP); ok {
			out.Evals++
			if c != nil {
				c.count("fault:fresh-process-reference", 1)
			}
			if key != lastRes.Key() && !seen["render-independent|process"] && (wantSig == "" || wantSig == "render-independent|process") {
				seen["render-independent|process"] = true
				fails = append(fails, c03Fail{"render-independent", fmt.Sprintf("step %d: %s of template %d %q with env %d gives %s after the earlier steps of this history; a pristine process gives %s for the same template and bindings (state surviving at process level)", lastOK, epNames[lastEP], st.T, clip(srcs[st.T]), st.B, clip(lastRes.Key()), clip(key)), "render-independent|process", lastOK})
			}
		} else if c != nil {
			c.count("fresh_process_child_failed", 1)
		}
	}
	return fails
}

func diffAt(a, b string) string {
	i := 0
	for i < len(a) && i < len(b) && a[i] == b[i] {
		i++
	}
	lo := i - 60
	if lo < 0 {
		lo = 0
	}
	ha, hb := i+60, i+60
	if ha > len(a) {
		ha = len(a)
	}
	if hb > len(b) {
		hb = len(b)
	}
	return fmt.Sprintf("before …%s… after …%s…", a[lo:ha], b[lo:hb])
}

func (ck c03) RunCase(c *Ctx, idx int) *CaseOut {
	wrapIncludes = false
	r := NewRng(c.Seed, strSeed("C03"), uint64(idx))
	cs := genC03(r)
	out := &CaseOut{}
	fails := c03Find(c, cs, out, "")
	u := map[string]bool{}
	for _, t := range cs.Trees {
		constructs(t, u)
	}
	for k := range u {
		c.count("use:"+k, 1)
	}
	c.count("aliases", int64(len(cs.Aliases)))
	for _, f := range fails {
		out.Violations = append(out.Violations, c03Violation(c, cs, f, idx))
	}
	out.Digest = c.takeDigest()
	if idx%151 == 0 {
		out.Sample = map[string]any{"sources": cs.Sources, "steps": cs.Steps, "aliases": cs.Aliases, "envs": len(cs.Envs)}
	}
	return out
}

func c03Violation(c *Ctx, cs *C03Case, f c03Fail, idx int) *Violation {
	orig := *cs
	orig.FailAt = f.step
	if f.sig == "render-independent|process" {
		// needs the earlier activity of this process: not minimised; the replay re-runs
		// the shard's earlier cases first
		if c.Shards > 0 {
			orig.Prefix = &C02Prefix{Index: idx, Shards: c.Shards, Tier: c.Tier}
		}
		ob, _ := json.Marshal(orig)
		return &Violation{Property: "C03", Clause: f.clause, Detail: f.detail, Signature: f.sig, Seed: c.Seed, Index: idx, Case: ob}
	}
	ob, _ := json.Marshal(orig)
	if !c.mayMinimise(f.sig) {
		return &Violation{Property: c.Prop, Clause: f.clause, Detail: f.detail, Signature: f.sig, Seed: c.Seed, Index: idx, Case: ob}
	}
	deadline := time.Now().Add(25 * time.Second)
	cur := orig
	test := func(cand *C03Case) (c03Fail, bool) {
		o := &CaseOut{}
		// the culprit kind may move to another index; match on clause only
		for _, ff := range c03Find(nil, cand, o, "") {
			if ff.clause == f.clause {
				return ff, true
			}
		}
		return c03Fail{}, false
	}
	// drop steps after the failing one, then try dropping each earlier step
	cur.Steps = append([]C03Step(nil), cur.Steps[:f.step+1]...)
	for i := len(cur.Steps) - 2; i >= 0 && time.Now().Before(deadline); i-- {
		cand := cur
		cand.Steps = append(append([]C03Step(nil), cur.Steps[:i]...), cur.Steps[i+1:]...)
		if _, ok := test(&cand); ok {
			cur = cand
		}
	}
	// minimise the templates the remaining steps use
	used := map[int]bool{}
	for _, s := range cur.Steps {
		used[s.T] = true
	}
	for t := range cur.Trees {
		if !used[t] {
			continue
		}
		t := t
		nt := minimiseTree(cur.Trees[t], deadline, func(tr []*TNode) bool {
			cand := cur
			cand.Trees = append([][]*TNode(nil), cur.Trees...)
			cand.Trees[t] = tr
			_, ok := test(&cand)
			return ok
		})
		cur.Trees = append([][]*TNode(nil), cur.Trees...)
		cur.Trees[t] = nt
	}
	cur.Sources = nil
	for _, t := range cur.Trees {
		cur.Sources = append(cur.Sources, Source(t))
	}
	v := &Violation{Property: "C03", Clause: f.clause, Detail: f.detail, Signature: f.sig, Seed: c.Seed, Index: idx, Original: ob}
	if mf, ok := test(&cur); ok {
		cur.FailAt = mf.step
		v.Detail, v.Minimised = mf.detail, true
		v.Case, _ = json.Marshal(cur)
	} else {
		v.Case = ob
	}
	return v
}

func (ck c03) Replay(c *Ctx, v *Violation) *Violation {
	var cs C03Case
	if err := json.Unmarshal(v.Case, &cs); err != nil {
		fatal("replay: %v", err)
	}
	if cs.Prefix != nil {
		c.Tier = cs.Prefix.Tier
		for i := cs.Prefix.Index % cs.Prefix.Shards; i < cs.Prefix.Index; i += cs.Prefix.Shards {
			simrt.ResetPools()
			ck.RunCase(c, i) // the earlier activity of the process the divergence was seen in
		}
	}
	out := &CaseOut{}
	want := ""
	if v.Signature == "render-independent|process" {
		want = v.Signature // the pristine-child reference is only consulted on request
	}
	for _, f := range c03Find(nil, &cs, out, want) {
		if f.clause == v.Clause {
			fmt.Printf("replay: history of %d step(s) -> %s: %s\n", len(cs.Steps), f.clause, f.detail)
			return &Violation{Property: "C03", Clause: f.clause, Detail: f.detail, Signature: f.sig}
		}
	}
	return nil
}
