package main

// Rng is the single source of pseudo-randomness: splitmix64. Every choice a
// check makes (generated programs, faults, schedules) is drawn from a stream
// derived from (VERIF_SEED, property, case index); nothing else is random.
type Rng struct{ s uint64 }

func mix(x uint64) uint64 {
	x += 0x9e3779b97f4a7c15
	x = (x ^ (x >> 30)) * 0xbf58476d1ce4e5b9
	x = (x ^ (x >> 27)) * 0x94d049bb133111eb
	return x ^ (x >> 31)
}

func NewRng(parts ...uint64) *Rng {
	s := uint64(0x243f6a8885a308d3)
	for _, p := range parts {
		s = mix(s ^ p)
	}
	return &Rng{s}
}

func strSeed(s string) uint64 {
	h := uint64(1469598103934665603)
	for i := 0; i < len(s); i++ {
		h = (h ^ uint64(s[i])) * 1099511628211
	}
	return h
}

func (r *Rng) U64() uint64 { r.s += 0x9e3779b97f4a7c15; return mix(r.s) }
func (r *Rng) Intn(n int) int {
	if n <= 1 {
		return 0
	}
	return int(r.U64() % uint64(n))
}
func (r *Rng) Range(lo, hi int) int  { return lo + r.Intn(hi-lo+1) } // inclusive
func (r *Rng) Chance(p float64) bool { return float64(r.U64()>>11)/float64(1<<53) < p }
func (r *Rng) Fork(tag uint64) *Rng  { return NewRng(r.U64(), tag) }
func pick[T any](r *Rng, xs []T) T   { return xs[r.Intn(len(xs))] }
func (r *Rng) Perm(n int) []int {
	p := make([]int, n)
	for i := range p {
		p[i] = i
	}
	for i := n - 1; i > 0; i-- {
		j := r.Intn(i + 1)
		p[i], p[j] = p[j], p[i]
	}
	return p
}

// weighted picks an index with probability proportional to w[i].
func (r *Rng) weighted(w []int) int {
	t := 0
	for _, x := range w {
		t += x
	}
	if t == 0 {
		return 0
	}
	k := r.Intn(t)
	for i, x := range w {
		if k < x {
			return i
		}
		k -= x
	}
	return len(w) - 1
}
