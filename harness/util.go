package main

import (
	"sort"
	"strings"
)

func sortStrings(s []string) { sort.Strings(s) }

// constructs records which tags and filters a template tree uses.
func constructs(ns []*TNode, u map[string]bool) {
	for _, n := range ns {
		switch n.K {
		case "obj":
			filtersOf(n.S, u)
		case "tag", "block":
			name := n.S
			if i := strings.IndexByte(name, ' '); i >= 0 {
				name = name[:i]
			}
			u["tag:"+name] = true
			filtersOf(n.S, u)
		case "raw", "comment":
			u["tag:"+n.K] = true
		}
		if n.TL || n.TR || n.EL || n.ER {
			u["trim"] = true
		}
		constructs(n.C, u)
		for _, cl := range n.Cl {
			name := cl.S
			if i := strings.IndexByte(name, ' '); i >= 0 {
				name = name[:i]
			}
			u["tag:"+name] = true
			constructs(cl.C, u)
		}
	}
}

func filtersOf(expr string, u map[string]bool) {
	parts := strings.Split(expr, "|")
	for _, p := range parts[1:] {
		p = strings.TrimSpace(p)
		if i := strings.IndexAny(p, ": "); i >= 0 {
			p = p[:i]
		}
		if p != "" {
			u["filter:"+p] = true
		}
	}
}
