package main

import (
	"bytes"
	"encoding/json"
	"fmt"
	"os"
	"os/exec"
	"path/filepath"
	"sort"
	"strings"
	"time"

	"github.com/osteele/liquid"
	"github.com/osteele/liquid/render"
	"verif.local/simrt"
)

// C04: concurrent parse/render on a shared engine is race-free and equals sequential.
type c04 struct{}

func init() { checks["C04"] = c04{} }

func (c04) Level() string { return "exploration" }
func (c04) NumCases(tier string) int {
	if tier == "thorough" {
		return 16000
	}
	return 640
}
func c04Schedules(tier string) int {
	if tier == "thorough" {
		return 24
	}
	return 6
}
func (c04) Rule() string {
	return "case = one configured engine, 3..8 pre-parsed generated templates, 1..4 binding environments shared BY REFERENCE (incl. Drops, structs with methods, nested maps/slices), N simulated caller tasks (2..4 quick, 2..32 thorough) each running a script of 1..6 operations (Render/RenderString/FRender to a private buffer or a private failing writer, ParseTemplate/ParseString/ParseTemplateLocation + render, ParseAndRender/ParseAndRenderString/ParseAndFRender; >=50% of operations hit the same template with the same bindings). Every operation is first executed alone; then S seeded schedules (uniform-random quanta, PCT-style priority change points, round-robin, one sequential) run the tasks on a FRESH but identical world with exactly one task runnable at any instant, preempting only at step points (every statement of repository code). Oracles per schedule: every operation's result tuple equals its alone result; the happens-before conflict detector (shadow memory over recorded accesses of repository code; edges from modelled sync primitives) reports no conflict; deep snapshots of shared bindings unchanged; every task finishes within 50x its alone step count and no simulated deadlock. Non-trivial schedule: >=1 context switch inside an operation; distinct interleavings counted by hash of the context-switch trace (from, to, site)*."
}
func (c04) Assumptions() []string {
	return []string{
		"RegisterTag/Block/Filter, StrictVariables, Delims and ParseTemplateAndCache are configuration and run before the tasks start",
		"sequentially consistent interleavings only; weak-memory effects are covered by the conflict detector's definition (any unordered conflicting pair is reported whether or not stale data was observed)",
		"preemption inside std-lib/dependency calls is not explored (each is one step); memory touched only there is visible through the mutating-method table (bytes.Buffer, strings.Builder, sort.*, copy) or by its effect on results",
		"Go's -race cannot be the oracle under a serialising scheduler; the detector sees the accesses liqinstr records (see evidence.instrumentation)",
	}
}

type C04Op struct {
	Kind   string `json:"kind"` // render | parse (parse then render the result) | direct (ParseAnd*)
	T      int    `json:"t"`
	B      int    `json:"b"`
	EP     int    `json:"ep"`
	How    int    `json:"parse_how,omitempty"` // 0 ParseTemplate 1 ParseString 2 ParseTemplateLocation
	Fault  bool   `json:"fault,omitempty"`
	K      int    `json:"k,omitempty"`
	Accept int    `json:"accept,omitempty"`
}

type C04Case struct {
	Cfg     EngCfg              `json:"cfg"`
	Envs    []*Env              `json:"envs"`
	Trees   [][]*TNode          `json:"trees"`
	Sources []string            `json:"sources"`
	Inc     map[string][]*TNode `json:"inc,omitempty"`
	Tasks   [][]C04Op           `json:"tasks"`
	Lazy    bool                `json:"lazy_pool,omitempty"`         // the pool is NOT pre-parsed: the first parse on the engine happens inside the tasks
	NoPath  bool                `json:"pool_without_path,omitempty"` // the pool is parsed with ParseString (no source path)
	// the failing schedule
	Trace  []simrt.Seg `json:"schedule,omitempty"`
	Policy string      `json:"policy,omitempty"`
	Prefix *C02Prefix  `json:"process_history,omitempty"` // earlier cases of the shard process (for violations that need process-level history)
	ChildI int         `json:"child_task,omitempty"`
	ChildJ int         `json:"child_op,omitempty"`
}

func genC04(r *Rng, tier string) *C04Case {
	cs := &C04Case{Cfg: genCfg(r, 0.25)}
	cs.Cfg.apply() // Source() during generation must already use this case's delimiters
	ne := r.Range(1, 4)
	for i := 0; i < ne; i++ {
		cs.Envs = append(cs.Envs, GenEnv(r.Fork(uint64(100+i)), 0, 5))
	}
	var incArgs []string
	if r.Chance(0.4) {
		incArgs = []string{`"inc0.html"`, `"inc1.html"`}
		cs.Inc = map[string][]*TNode{}
		names := []string{"inc0.html", "inc1.html"}
		chain := r.Chance(0.4) // inc0 -> inc1 -> inc2 -> inc3: include depth 4
		if chain {
			names = append(names, "inc2.html", "inc3.html")
		}
		for i, n := range names {
			ig := NewGen(r.Fork(strSeed(n)), r.Range(2, 10))
			if r.Chance(0.3) {
				ig.loop = 1 // the file is meant to be included from inside a loop: cycle / break / continue at its top level
			}
			t := ig.Template(cs.Envs[0])
			if chain && i+1 < len(names) {
				t = append(t, &TNode{K: "tag", S: "include " + quote(names[i+1])})
			}
			cs.Inc[n] = t
		}
	}
	nt := r.Range(3, 8)
	var focus []filt
	if r.Chance(0.5) {
		focus = pickFocus(r.Fork(77)) // the same few filters, with varied arguments, across the whole pool
	}
	for i := 0; i < nt; i++ {
		g := NewGen(r.Fork(uint64(200+i)), r.Range(4, 30))
		g.focus = focus
		g.ArrEmphasis = r.Chance(0.4)
		g.incArgs = incArgs
		if r.Chance(0.7) {
			for _, f := range allFeatures {
				g.feat[f] = true // most concurrency templates use every tag
			}
		}
		t := g.Template(cs.Envs[0])
		if focus != nil && i < 2 {
			t = g.Sweep(cs.Envs[0], focus, r.Range(5, 12)) // two flat sweeps of the focus filters lead the pool
		}
		if i > 0 && r.Chance(0.3) {
			t = g.Sibling(cs.Trees[r.Intn(i)], cs.Envs[0])
		}
		cs.Trees = append(cs.Trees, t)
	}
	if r.Chance(0.12) {
		// a template that is rejected by the block parser (a clause or end tag out of place):
		// error paths build their messages lazily too
		bad := pick(r, []string{"else", "when 1", "elsif x", "endfor", "endcase", "endif", "else"})
		cs.Trees[0] = append([]*TNode{{K: "text", S: "a"}, {K: "tag", S: bad}}, cs.Trees[0]...)
	}
	for _, t := range cs.Trees {
		cs.Sources = append(cs.Sources, Source(t))
	}
	n := r.Range(2, 4)
	if tier == "thorough" {
		switch r.weighted([]int{70, 20, 8, 2}) {
		case 1:
			n = r.Range(4, 6)
		case 2:
			n = r.Range(7, 12)
		case 3:
			n = r.Range(13, 32)
		}
	}
	cs.Lazy = r.Chance(0.25)
	cs.NoPath = r.Chance(0.5)
	hotT, hotB := r.Intn(nt), r.Intn(ne)
	for i := 0; i < n; i++ {
		var ops []C04Op
		for j, k := 0, r.Range(1, 6); j < k; j++ {
			op := C04Op{T: r.Intn(nt), B: r.Intn(ne)}
			if r.Chance(0.6) {
				op.T, op.B = hotT, hotB
			}
			switch r.weighted([]int{6, 2, 2}) {
			case 0:
				op.Kind, op.EP = "render", r.Intn(3)
			case 1:
				op.Kind, op.EP, op.How = "parse", r.Intn(3), r.Intn(3)
			default:
				op.Kind, op.EP = "direct", 3+r.Intn(3)
			}
			if r.Chance(0.06) {
				// this task sets up an engine of its OWN (new engine, registrations, a
				// render on it) while the others use the shared, already configured one
				op = C04Op{Kind: "other-engine", T: op.T, B: op.B}
			}
			if (op.EP == EPFRender || op.EP == EPParseAndFRender) && r.Chance(0.5) {
				op.Fault, op.K, op.Accept = true, r.Intn(10), r.Intn(3)
			}
			ops = append(ops, op)
		}
		cs.Tasks = append(cs.Tasks, ops)
	}
	return cs
}

// a world: engine, parsed pool, bindings (shared by reference among all tasks)
type c04World struct {
	eng  *liquid.Engine
	tpls []*liquid.Template
	srcs []string
	envs []map[string]any
}

func c04Build(cs *C04Case) (*c04World, Res) {
	cs.Cfg.apply()
	c03Pin()
	e := NewEngine(cs.Cfg)
	names := make([]string, 0, len(cs.Inc))
	for n := range cs.Inc {
		names = append(names, n)
	}
	sortStrings(names)
	for _, n := range names {
		for _, path := range []string{n, filepath.Join(c20Root, n)} {
			r := guard(func() Res {
				if _, err := e.ParseTemplateAndCache([]byte(Source(cs.Inc[n])), path, 1); err != nil {
					return errRes(err, "parse")
				}
				return Res{OK: true}
			})
			if !r.OK {
				return nil, r
			}
		}
	}
	w := &c04World{eng: e}
	for _, t := range cs.Trees {
		src := Source(t)
		w.srcs = append(w.srcs, src)
		if cs.Lazy {
			w.tpls = append(w.tpls, nil) // "render" operations then use the ParseAnd* forms
			continue
		}
		var p Parsed
		if cs.NoPath {
			p = Parse(e, src)
		} else {
			p = ParseLoc(e, src, filepath.Join(c20Root, "root.html"), 1)
		}
		w.tpls = append(w.tpls, p.T)
	}
	for _, env := range cs.Envs {
		w.envs = append(w.envs, env.Build(nil))
	}
	return w, Res{OK: true}
}

func (w *c04World) otherEngine(op C04Op) Res {
	return guard(func() Res {
		e := liquid.NewEngine()
		e.RegisterFilter("hx", func(s string) string { return "[other:" + s + "]" })
		e.RegisterFilter("upcase", func(s string) string { return "[other-upcase]" })
		e.RegisterFilter("only_on_other_engine", func(s string) string { return s })
		e.RegisterTag("echo", func(render.Context) (string, error) { return "[other-echo]", nil })
		e.RegisterBlock("otherblock", func(render.Context) (string, error) { return "", nil })
		out, err := e.ParseAndRenderString(`{{ "a" | hx | upcase }}{% echo 1 %}`, map[string]any{})
		if err != nil {
			return errRes(err, "")
		}
		return Res{OK: true, Out: out}
	})
}

func (w *c04World) exec(op C04Op) Res {
	if op.Kind == "other-engine" {
		return w.otherEngine(op)
	}
	var fw *FaultWriter
	var wr interface {
		Write([]byte) (int, error)
	}
	if op.Fault {
		fw = &FaultWriter{K: op.K, Accept: op.Accept, Sticky: true}
		wr = fw
	}
	ep := op.EP
	tpl := w.tpls[op.T]
	src := w.srcs[op.T]
	switch op.Kind {
	case "parse":
		var p Parsed
		switch op.How {
		case 0:
			p = ParseBytes(w.eng, src)
		case 1:
			p = Parse(w.eng, src)
		default:
			// the start line is the caller's (here a function of the operation): two callers may
			// parse the same bytes under the same path with different start lines
			p = ParseLoc(w.eng, src, filepath.Join(c20Root, "root.html"), 7+(op.B*5+op.EP+op.K)%9)
		}
		if p.T == nil {
			return p.Err
		}
		tpl = p.T
	case "render":
		if tpl == nil {
			ep += 3
		}
	}
	var res Res
	if wr != nil {
		res = Run(ep, w.eng, tpl, src, w.envs[op.B], wr)
		res.Out = string(fw.Accepted)
	} else {
		res = Run(ep, w.eng, tpl, src, w.envs[op.B], nil)
	}
	return res
}

func guardParse(f func() (*liquid.Template, liquid.SourceError)) (p Parsed) {
	p.Err = guard(func() Res {
		t, err := f()
		if err != nil {
			return errRes(err, "parse")
		}
		p.T = t
		return Res{OK: true}
	})
	return
}

// ---- schedule policies ----

type policy struct {
	name   string
	choose simrt.Chooser
}

func c04Policy(r *Rng, kind int, ntasks int, totalSteps int64) policy {
	switch kind {
	case 0: // sequential: each task runs to completion
		return policy{"sequential", func(run []int, last int, _ uint32) (int, int64) { return run[0], 1 << 40 }}
	case 1: // uniform random quanta
		q := int64(pick(r, []int{1, 2, 5, 20, 100, 1000, 10000}))
		return policy{fmt.Sprintf("random(q<=%d)", q), func(run []int, last int, _ uint32) (int, int64) {
			return run[r.Intn(len(run))], 1 + int64(r.U64()%uint64(q))
		}}
	case 2: // PCT-style: priorities + d change points
		d := r.Range(1, 3)
		prio := r.Perm(ntasks + 1)
		var cps []int64
		for i := 0; i < d; i++ {
			cps = append(cps, int64(r.U64()%uint64(totalSteps+1)))
		}
		var done int64
		return policy{fmt.Sprintf("pct(d=%d)", d), func(run []int, last int, _ uint32) (int, int64) {
			best := run[0]
			for _, t := range run {
				for t >= len(prio) { // a task spawned by a go statement of repository code
					prio = append(prio, len(prio))
				}
				if prio[t] > prio[best] {
					best = t
				}
			}
			// run until the next change point, then demote
			next := int64(1 << 40)
			for _, c := range cps {
				if c > done && c-done < next {
					next = c - done
				}
			}
			if next == 1<<40 {
				return best, next
			}
			done += next
			prio[best] = -int(done) // lowest so far
			return best, next
		}}
	case 4: // preempt right after a synchronisation operation (atomic, lock, unlock, Once, pool)
		k := int64(r.Range(1, 3))
		q := int64(pick(r, []int{200, 2000, 20000, 1 << 30}))
		return policy{fmt.Sprintf("sync-preempt(k<=%d,q<=%d)", k, q), func(run []int, last int, _ uint32) (int, int64) {
			simrt.NextSyncQuantum = 1 + int64(r.U64()%uint64(k))
			return run[r.Intn(len(run))], 1 + int64(r.U64()%uint64(q))
		}}
	case 5: // chase: the next task runs until it touches the object the last one just touched, then k more operations
		return policy{"sync-chase", func(run []int, last int, _ uint32) (int, int64) {
			pickT := run[r.Intn(len(run))]
			if len(run) > 1 && last != 0 {
				for pickT == last {
					pickT = run[r.Intn(len(run))]
				}
			}
			simrt.NextSyncQuantum = 1 + int64(r.U64()%3)
			if simrt.PrevSyncObj != nil && last != 0 && r.Chance(0.7) {
				simrt.NextUntilObj = simrt.PrevSyncObj
			}
			return pickT, 1 << 40
		}}
	default: // round-robin with a random quantum
		q := int64(pick(r, []int{1, 3, 17, 120, 900}))
		return policy{fmt.Sprintf("round-robin(q=%d)", q), func(run []int, last int, _ uint32) (int, int64) {
			for _, t := range run {
				if t > last {
					return t, q
				}
			}
			return run[0], q
		}}
	}
}

// A target is a location that two tasks touch with at least one write (in correct
// code such locations exist only under synchronisation): where task A and task B
// touch it, in their own step counts.
type c04Target struct {
	a, b   int
	sa, sb int64
}

// c04Targets derives directed-scheduling targets from the access log of a sequential run.
func c04Targets(log []simrt.AccessRec) []c04Target {
	type acc struct {
		task  int
		step  int64
		write bool
	}
	by := map[uintptr][]acc{}
	var order []uintptr
	for _, r := range log {
		if _, ok := by[r.Addr]; !ok {
			order = append(order, r.Addr)
		}
		if l := by[r.Addr]; len(l) < 64 {
			by[r.Addr] = append(l, acc{r.Task, r.Step, r.Write})
		}
	}
	var out []c04Target
	for _, addr := range order {
		l := by[addr]
		for i := 0; i < len(l) && len(out) < 256; i++ {
			for j := i + 1; j < len(l); j++ {
				if l[i].task != l[j].task && (l[i].write || l[j].write) {
					out = append(out, c04Target{l[i].task, l[j].task, l[i].step, l[j].step})
					break
				}
			}
		}
	}
	return out
}

// directed: run A up to (around) its access, then B up to (around) its access, then
// A to the end, then everything else -- the interleaving that separates a check from
// the act it guards when both sit in different critical sections.
func c04Directed(r *Rng, tg c04Target) policy {
	da, db := int64(r.Range(-2, 2)), int64(r.Range(-2, 2))
	if r.Chance(0.5) {
		tg.a, tg.b, tg.sa, tg.sb = tg.b, tg.a, tg.sb, tg.sa
	}
	plan := []struct {
		t int
		n int64
	}{{tg.a, tg.sa + da}, {tg.b, tg.sb + db}, {tg.a, 1 << 40}, {tg.b, 1 << 40}}
	i := 0
	return policy{fmt.Sprintf("directed(task%d@%d,task%d@%d)", tg.a, tg.sa+da, tg.b, tg.sb+db), func(run []int, last int, _ uint32) (int, int64) {
		for i < len(plan) {
			p := plan[i]
			i++
			for _, t := range run {
				if t == p.t {
					if p.n < 1 {
						p.n = 1
					}
					return t, p.n
				}
			}
		}
		return run[0], 1 << 40
	}}
}

func replayChooser(trace []simrt.Seg) simrt.Chooser {
	i := 0
	return func(run []int, last int, _ uint32) (int, int64) {
		if i >= len(trace) {
			return run[0], 1 << 40
		}
		s := trace[i]
		i++
		n := s.Steps
		if n < 1 {
			n = 1
		}
		if s.Why == "done" {
			n = 1 << 40
		}
		for _, t := range run {
			if t == s.Task {
				return t, n
			}
		}
		return run[0], n
	}
}

// c04AloneChild (mode c04alone): a pristine child process executes ONE operation of
// the case given on stdin, alone, and prints its result tuple.
func c04AloneChild() {
	simrt.SimPools, simrt.SingleThreaded = true, true
	var in struct {
		Case C04Case
		I, J int
	}
	if err := json.NewDecoder(os.Stdin).Decode(&in); err != nil {
		fatal("c04alone: %v", err)
	}
	w, r := c04Build(&in.Case)
	if w == nil {
		fmt.Print(r.Key())
		return
	}
	noScribble = true
	c03Pin()
	fmt.Print(w.exec(in.Case.Tasks[in.I][in.J]).Key())
}

func c04Child(cs *C04Case, i, j int) (string, bool) {
	cmd := exec.Command(os.Args[0], "c04alone", "-scratch", scratchRoot)
	cmd.Env = append(os.Environ(), "TZ="+curTZ)
	in, _ := json.Marshal(map[string]any{"Case": cs, "I": i, "J": j})
	cmd.Stdin = bytes.NewReader(in)
	var so bytes.Buffer
	cmd.Stdout = &so
	cmd.Stderr = os.Stderr
	if err := cmd.Run(); err != nil {
		return "", false
	}
	return so.String(), true
}

type c04Fail struct {
	clause, detail, sig string
	trace               []simrt.Seg
	policy              string
}

type c04Alone struct {
	res   [][]Res
	steps []int64
}

func c04AloneRun(cs *C04Case) (*c04Alone, Res) {
	w, r := c04Build(cs)
	if w == nil {
		return nil, r
	}
	a := &c04Alone{}
	noScribble = true // baselines do not reuse their parse buffers; the concurrent tasks do
	defer func() { noScribble = false }()
	for _, ops := range cs.Tasks {
		var rs []Res
		before := simrt.Steps
		for _, op := range ops {
			c03Pin()
			rs = append(rs, w.exec(op))
		}
		a.res = append(a.res, rs)
		a.steps = append(a.steps, int64(simrt.Steps-before))
	}
	return a, Res{OK: true}
}

// c04Run is one executed schedule, not yet judged.
type c04Run struct {
	results     [][]Res
	rr          simrt.RunResult
	changed     []string // shared binding environments modified during the run
	budget      []int64
	pol         policy
	treeChanged int // parsed render trees whose snapshot changed (probe, not a violation)
}

// c04Exec runs all tasks of cs under pol on a FRESH world. alone may be nil
// (cold run before the baselines exist: a generous fixed step budget is used).
func c04Exec(cs *C04Case, alone *c04Alone, pol policy) *c04Run {
	w, _ := c04Build(cs)
	snaps := make([]string, len(w.envs))
	for i, e := range w.envs {
		snaps[i] = Snapshot(e)
	}
	tsnaps := make([]string, len(w.tpls))
	for i, t := range w.tpls {
		if t != nil {
			tsnaps[i] = Snapshot(t.GetRoot())
		}
	}
	run := &c04Run{pol: pol, results: make([][]Res, len(cs.Tasks)), budget: make([]int64, len(cs.Tasks))}
	fns := make([]func(), len(cs.Tasks))
	for i := range cs.Tasks {
		i := i
		run.results[i] = make([]Res, 0, len(cs.Tasks[i]))
		fns[i] = func() {
			for _, op := range cs.Tasks[i] {
				run.results[i] = append(run.results[i], w.exec(op))
			}
		}
		// generous and absolute: the same operation may legitimately need far more steps
		// here than alone (a cache that is warm there and cold here)
		run.budget[i] = 20_000_000
		if alone != nil && alone.steps[i]*50 > run.budget[i] {
			run.budget[i] = alone.steps[i] * 50
		}
	}
	c03Pin()
	run.rr = simrt.RunTasks(fns, run.budget, pol.choose)
	for i, e := range w.envs {
		if s := Snapshot(e); s != snaps[i] {
			run.changed = append(run.changed, fmt.Sprintf("shared binding environment %d was modified during the concurrent run: %s", i, diffAt(snaps[i], s)))
		}
	}
	for i, t := range w.tpls {
		if t != nil {
			if s := Snapshot(t.GetRoot()); s != tsnaps[i] {
				// Not a violation by itself (a correctly synchronised memo inside the tree
				// is legitimate); an unsynchronised one is the conflict detector's business.
				run.treeChanged++
			}
		}
	}
	return run
}

// c04Judge applies the four oracles to an executed schedule.
func c04Judge(cs *C04Case, alone *c04Alone, run *c04Run, sites *SiteTable) (fails []c04Fail) {
	rr, pol, results := run.rr, run.pol, run.results
	add := func(clause, detail, key string) {
		fails = append(fails, c04Fail{clause: clause, detail: detail, sig: clause + "|" + key, trace: rr.Trace, policy: pol.name})
	}
	if rr.Deadlock {
		add("progress", "simulated deadlock: every live task is blocked on a modelled synchronisation primitive", "deadlock")
	}
	for _, t := range rr.Overrun {
		add("progress", fmt.Sprintf("task %d exceeded its step budget (%d steps; alone it needs %d): the operation does not return", t, run.budget[t-1], alone.steps[t-1]), "budget")
	}
	for _, cf := range rr.Conflicts {
		a, b := sites.Name(cf.SiteA), sites.Name(cf.SiteB)
		kind := func(w bool) string {
			if w {
				return "write"
			}
			return "read"
		}
		if cf.TaskB == 0 {
			// a write to package-level state outside any lock / Once / atomic: a race as soon
			// as two goroutines perform this operation (reported from one task alone)
			add("conflict-free", fmt.Sprintf("task %d writes package-level state at %s while holding no lock and outside sync.Once: any two goroutines performing this operation race on it", cf.TaskA, a),
				"package-level-write|"+siteKey(sites, cf.SiteA))
			continue
		}
		add("conflict-free", fmt.Sprintf("data race: task %d %s at %s and task %d %s at %s touch the same location with no happens-before order", cf.TaskA, kind(cf.WriteA), a, cf.TaskB, kind(cf.WriteB), b),
			siteKey(sites, cf.SiteA)+"~"+siteKey(sites, cf.SiteB))
	}
	if !rr.Deadlock && len(rr.Overrun) == 0 {
		for i := range cs.Tasks {
			for j := range cs.Tasks[i] {
				if j >= len(results[i]) {
					add("equals-alone", fmt.Sprintf("task %d did not complete operation %d", i+1, j), "incomplete")
					break
				}
				if got, want := results[i][j], alone.res[i][j]; got.Key() != want.Key() {
					if want.Panic != "" {
						continue
					}
					op := cs.Tasks[i][j]
					add("equals-alone", fmt.Sprintf("task %d operation %d (%s %s of template %d %q, env %d) returned %s under schedule %s; alone it returns %s", i+1, j, op.Kind, epNames[op.EP], op.T, clip(cs.Sources[op.T]), op.B, clip(got.Key()), pol.name, clip(want.Key())), "result")
				}
			}
		}
	}
	for i := range results {
		for j, r := range results[i] {
			if !r.Intact() {
				add("equals-alone", fmt.Sprintf("the []byte that task %d operation %d returned (%q) was overwritten afterwards by another render: it now reads %q", i+1, j, clip(r.Out), clip(string(r.bytes))), "returned-bytes-overwritten")
			}
		}
	}
	for _, ch := range run.changed {
		add("shared-bindings-unchanged", ch, "bindings")
	}
	var pts []int
	for t := range rr.Panics {
		pts = append(pts, t)
	}
	sort.Ints(pts)
	for _, t := range pts {
		add("no-panic", fmt.Sprintf("task %d panicked outside a guarded call: %s", t, rr.Panics[t]), "task-panic")
	}
	return
}

// c04RunSchedule = exec + judge.
func c04RunSchedule(c *Ctx, cs *C04Case, alone *c04Alone, pol policy, sites *SiteTable) ([]c04Fail, simrt.RunResult) {
	run := c04Exec(cs, alone, pol)
	return c04Judge(cs, alone, run, sites), run.rr
}

func siteKey(t *SiteTable, id uint32) string {
	if i, ok := t.byID[id]; ok {
		s := t.Sites[i]
		return fmt.Sprintf("%s:%s:%s", s.File, s.Func, s.Expr)
	}
	return fmt.Sprint(id)
}

func traceHash(tr []simrt.Seg) (uint64, int) {
	var sb strings.Builder
	sw := 0
	last := 0
	for _, s := range tr {
		if s.Task != last {
			fmt.Fprintf(&sb, "%d>%d@%d;", last, s.Task, s.Site)
			if last != 0 {
				sw++
			}
			last = s.Task
		}
	}
	return hashStr(sb.String()), sw
}

func (ck c04) RunCase(c *Ctx, idx int) *CaseOut {
	wrapIncludes = false
	r := NewRng(c.Seed, strSeed("C04"), uint64(idx))
	cs := genC04(r, c.Tier)
	out := &CaseOut{}
	if len(c.Sites.UnmodelledSync) > 0 {
		fatal("C04 cannot run: repository code uses synchronisation the simulator does not model: %v", c.Sites.UnmodelledSync)
	}
	for _, pkg := range []string{"", "/render", "/tags", "/expressions", "/values", "/filters", "/parser"} {
		if lv, ok := c.Sites.Levels["github.com/osteele/liquid"+pkg]; ok && lv < 3 {
			fatal("C04 cannot run: package %s lost its access instrumentation (level %d)", "liquid"+pkg, lv)
		}
	}
	if w, r0 := c04Build(cs); w == nil {
		c.logf("setup: %s", r0.Key())
		out.Discarded = r0.Panic != ""
		out.Digest = c.takeDigest()
		return out
	}
	// Cold schedule: the tasks run concurrently BEFORE anything in this case has been
	// executed alone, so state that is initialised lazily on first use (per engine,
	// per template or per process) is initialised under concurrency.
	cold := c04Exec(cs, nil, c04Policy(r.Fork(999), 1+r.Intn(3), len(cs.Tasks), 200000))
	alone, _ := c04AloneRun(cs)
	var total int64
	for _, s := range alone.steps {
		total += s
	}
	// "What it returns when run alone" ultimately means alone in a process where nothing
	// else has run: one operation of the cold schedule is also compared with its result in
	// a pristine child process (first-one-wins state at package level pollutes an
	// in-process baseline in the same way as the concurrent run).
	if alone != nil && !cold.rr.Deadlock && len(cold.rr.Overrun) == 0 {
		ci := r.Intn(len(cs.Tasks))
		cj := r.Intn(len(cs.Tasks[ci]))
		if cj < len(cold.results[ci]) && alone.res[ci][cj].Panic == "" && cs.Tasks[ci][cj].Kind != "other-engine" {
			if key, ok := c04Child(cs, ci, cj); ok {
				out.Evals++
				c.count("fault:fresh-process-reference", 1)
				if got := cold.results[ci][cj]; key != got.Key() && got.Key() == alone.res[ci][cj].Key() {
					f := c04Fail{clause: "equals-alone", sig: "equals-alone|process", trace: cold.rr.Trace, policy: "cold:" + cold.pol.name,
						detail: fmt.Sprintf("task %d operation %d returned %s (concurrently and in-process alone); alone in a pristine process it returns %s: the result depends on what ran earlier in the process", ci+1, cj, clip(got.Key()), clip(key))}
					orig := *cs
					orig.Trace, orig.Policy = f.trace, f.policy
					if c.Shards > 0 {
						orig.Prefix = &C02Prefix{Index: idx, Shards: c.Shards, Tier: c.Tier}
					}
					orig.ChildI, orig.ChildJ = ci, cj
					ob, _ := json.Marshal(orig)
					out.Violations = append(out.Violations, &Violation{Property: "C04", Clause: f.clause, Detail: f.detail, Signature: f.sig, Seed: c.Seed, Index: idx, Case: ob})
				}
			}
		}
	}
	c.logf("alone steps %v", alone.steps)
	u := map[string]bool{}
	for i, t := range cs.Trees {
		used := 0
		for _, ops := range cs.Tasks {
			for _, op := range ops {
				if op.T == i {
					used++
					break
				}
			}
		}
		if used >= 2 {
			constructs(t, u) // constructs exercised by >= 2 tasks
		}
	}
	for k := range u {
		c.count("use:"+k, 1)
	}
	S := c04Schedules(c.Tier)
	S0 := S
	seen := map[string]bool{}
	var targets []c04Target
	var syncOps int64
	for s := 0; s < S; s++ {
		kind := 0
		if s > 1 {
			kind = 1 + r.Intn(3)
			if syncOps > 0 && (r.Chance(0.3) || s >= S0) {
				kind = 4 + r.Intn(2) // the sequential schedule executed synchronisation operations: preempt around them
			}
		}
		pol := c04Policy(r.Fork(uint64(1000+s)), kind, len(cs.Tasks), total)
		if s > 1 && len(targets) > 0 && r.Chance(0.5) {
			pol = c04Directed(r.Fork(uint64(3000+s)), pick(r, targets))
		}
		simrt.LogAccesses = s == 1 // the sequential schedule yields the directed targets
		syncBefore := simrt.SyncOps
		var fails []c04Fail
		var rr simrt.RunResult
		if s == 0 {
			pol = policy{"cold:" + cold.pol.name, nil}
			fails, rr = c04Judge(cs, alone, cold, c.Sites), cold.rr
		} else {
			fails, rr = c04RunSchedule(c, cs, alone, pol, c.Sites)
		}
		if s == 1 {
			syncOps = simrt.SyncOps - syncBefore
			if syncOps > 0 {
				S += 8 // code with synchronisation in it gets eight more schedules, all preempting around it
			}
			c.count("sync_operations_in_sequential_schedule", syncOps)
			targets = c04Targets(rr.Log)
			c.count("directed_targets", int64(len(targets)))
		}
		simrt.LogAccesses = false
		out.Evals++
		h, sw := traceHash(rr.Trace)
		c.logf("schedule %d %s: segs=%d switches=%d steps=%v conflicts=%d fails=%d", s, pol.name, len(rr.Trace), sw, rr.Steps, len(rr.Conflicts), len(fails))
		c.count("context_switches", int64(sw))
		c.count("fault:preemption", int64(sw))
		c.count("policy:"+strings.SplitN(pol.name, "(", 2)[0], 1)
		c.count("recorded_accesses", int64(simrt.Accesses))
		simrt.Accesses = 0
		for _, ops := range cs.Tasks {
			for _, op := range ops {
				if op.Fault {
					c.count("fault:writer_abort_in_task", 1)
				}
			}
		}
		if sw > 0 {
			out.Hashes = append(out.Hashes, h^hashStr(strings.Join(cs.Sources, "\x00")))
		}
		for _, f := range fails {
			if seen[f.sig] {
				continue
			}
			seen[f.sig] = true
			out.Violations = append(out.Violations, c04Violation(c, cs, f, idx, alone))
		}
	}
	out.Digest = c.takeDigest()
	if idx%53 == 0 {
		out.Sample = map[string]any{"sources": cs.Sources, "tasks": cs.Tasks, "envs": len(cs.Envs), "alone_steps": alone.steps}
	}
	return out
}

func c04Violation(c *Ctx, cs *C04Case, f c04Fail, idx int, alone *c04Alone) *Violation {
	orig := *cs
	orig.Trace, orig.Policy = f.trace, f.policy
	ob, _ := json.Marshal(orig)
	if !c.mayMinimise(f.sig) {
		return &Violation{Property: c.Prop, Clause: f.clause, Detail: f.detail, Signature: f.sig, Seed: c.Seed, Index: idx, Case: ob}
	}
	deadline := time.Now().Add(25 * time.Second)
	cur := orig
	test := func(cand *C04Case) (c04Fail, bool) {
		if w, _ := c04Build(cand); w == nil {
			return c04Fail{}, false
		}
		// schedule first, baselines afterwards: same order as the run that found it
		run := c04Exec(cand, nil, policy{"replay", replayChooser(cand.Trace)})
		al, _ := c04AloneRun(cand)
		if al == nil {
			return c04Fail{}, false
		}
		fails := c04Judge(cand, al, run, c.Sites)
		for _, ff := range fails {
			if ff.sig == f.sig {
				return ff, true
			}
		}
		return c04Fail{}, false
	}
	// 1. a simpler schedule: fully sequential, else drop segments one at a time
	{
		cand := cur
		cand.Trace = nil
		if ff, ok := test(&cand); ok {
			cur = cand
			cur.Trace = ff.trace
		} else {
			for i := len(cur.Trace) - 1; i >= 0 && time.Now().Before(deadline); i-- {
				cand := cur
				cand.Trace = append(append([]simrt.Seg(nil), cur.Trace[:i]...), cur.Trace[i+1:]...)
				if ff, ok := test(&cand); ok {
					cur = cand
					cur.Trace = ff.trace
					if i > len(cur.Trace) {
						i = len(cur.Trace)
					}
				}
			}
		}
	}
	retarget := func(cand *C04Case) {
		// task indices in the trace may shift after dropping a task: fall back to replaying what fits
	}
	// 2. drop tasks (keep at least two), 3. drop operations
	for t := len(cur.Tasks) - 1; t >= 0 && len(cur.Tasks) > 2 && time.Now().Before(deadline); t-- {
		cand := cur
		cand.Tasks = append(append([][]C04Op(nil), cur.Tasks[:t]...), cur.Tasks[t+1:]...)
		cand.Trace = nil
		for _, s := range cur.Trace {
			if s.Task == t+1 {
				continue
			}
			if s.Task > t+1 {
				s.Task--
			}
			cand.Trace = append(cand.Trace, s)
		}
		retarget(&cand)
		if ff, ok := test(&cand); ok {
			cur = cand
			cur.Trace = ff.trace
		}
	}
	for t := range cur.Tasks {
		for j := len(cur.Tasks[t]) - 1; j >= 0 && len(cur.Tasks[t]) > 1 && time.Now().Before(deadline); j-- {
			cand := cur
			cand.Tasks = append([][]C04Op(nil), cur.Tasks...)
			cand.Tasks[t] = append(append([]C04Op(nil), cur.Tasks[t][:j]...), cur.Tasks[t][j+1:]...)
			// step counts change: let the sequential / same-shape schedule be re-derived
			if ff, ok := test(&cand); ok {
				cur = cand
				cur.Trace = ff.trace
			}
		}
	}
	// 4. minimise the templates still used
	used := map[int]bool{}
	for _, ops := range cur.Tasks {
		for _, op := range ops {
			used[op.T] = true
		}
	}
	for t := range cur.Trees {
		if !used[t] {
			continue
		}
		t := t
		nt := minimiseTree(cur.Trees[t], deadline, func(tr []*TNode) bool {
			cand := cur
			cand.Trees = append([][]*TNode(nil), cur.Trees...)
			cand.Trees[t] = tr
			_, ok := test(&cand)
			return ok
		})
		cur.Trees = append([][]*TNode(nil), cur.Trees...)
		cur.Trees[t] = nt
	}
	// 5. drop pool entries no remaining operation refers to
	{
		tmap, bmap := map[int]int{}, map[int]int{}
		cand := cur
		cand.Trees, cand.Envs, cand.Tasks = nil, nil, nil
		for _, ops := range cur.Tasks {
			var nops []C04Op
			for _, op := range ops {
				if _, ok := tmap[op.T]; !ok {
					tmap[op.T] = len(cand.Trees)
					cand.Trees = append(cand.Trees, cur.Trees[op.T])
				}
				if _, ok := bmap[op.B]; !ok {
					bmap[op.B] = len(cand.Envs)
					cand.Envs = append(cand.Envs, cur.Envs[op.B])
				}
				op.T, op.B = tmap[op.T], bmap[op.B]
				nops = append(nops, op)
			}
			cand.Tasks = append(cand.Tasks, nops)
		}
		if _, ok := test(&cand); ok {
			cur = cand
		}
	}
	cur.Sources = nil
	for _, t := range cur.Trees {
		cur.Sources = append(cur.Sources, Source(t))
	}
	v := &Violation{Property: "C04", Clause: f.clause, Detail: f.detail, Signature: f.sig, Seed: c.Seed, Index: idx, Original: ob}
	if mf, ok := test(&cur); ok {
		cur.Trace = mf.trace
		v.Detail, v.Minimised = mf.detail, true
		v.Case, _ = json.Marshal(cur)
	} else {
		v.Case = ob
	}
	return v
}

func (ck c04) Replay(c *Ctx, v *Violation) *Violation {
	var cs C04Case
	if err := json.Unmarshal(v.Case, &cs); err != nil {
		fatal("replay: %v", err)
	}
	if v.Signature == "equals-alone|process" {
		if cs.Prefix != nil {
			c.Tier = cs.Prefix.Tier
			for i := cs.Prefix.Index % cs.Prefix.Shards; i < cs.Prefix.Index; i += cs.Prefix.Shards {
				simrt.ResetPools()
				ck.RunCase(c, i)
			}
		}
		run := c04Exec(&cs, nil, policy{"replay", replayChooser(cs.Trace)})
		key, ok := c04Child(&cs, cs.ChildI, cs.ChildJ)
		if ok && cs.ChildJ < len(run.results[cs.ChildI]) && run.results[cs.ChildI][cs.ChildJ].Key() != key {
			return &Violation{Property: "C04", Clause: v.Clause, Signature: v.Signature,
				Detail: fmt.Sprintf("task %d operation %d returns %s after this process's earlier activity; alone in a pristine process it returns %s", cs.ChildI+1, cs.ChildJ, clip(run.results[cs.ChildI][cs.ChildJ].Key()), clip(key))}
		}
		return nil
	}
	if w, r0 := c04Build(&cs); w == nil {
		fmt.Printf("replay: setup failed: %s\n", r0.Key())
		return nil
	}
	// The recorded schedule runs FIRST, in this fresh process, before any operation
	// has been executed alone (state initialised lazily is then initialised under the
	// schedule, as in the run that found the violation); the baselines follow.
	run := c04Exec(&cs, nil, policy{"replay", replayChooser(cs.Trace)})
	alone, _ := c04AloneRun(&cs)
	if alone == nil {
		return nil
	}
	fails := c04Judge(&cs, alone, run, c.Sites)
	fmt.Printf("replay: %d task(s), schedule of %d segment(s) re-executed as %d segment(s)\n", len(cs.Tasks), len(cs.Trace), len(run.rr.Trace))
	for _, f := range fails {
		if f.sig == v.Signature {
			fmt.Printf("replay: %s: %s\n", f.clause, f.detail)
			return &Violation{Property: "C04", Clause: f.clause, Detail: f.detail, Signature: f.sig}
		}
	}
	for _, f := range fails {
		if f.clause == v.Clause {
			return &Violation{Property: "C04", Clause: f.clause, Detail: f.detail, Signature: f.sig}
		}
	}
	return nil
}
