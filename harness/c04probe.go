package main

import (
	"fmt"

	"verif.local/simrt"
)

// c04Probe (debugging aid, not part of any check): two tasks render one template whose
// single property site sees records of two struct types; each schedule policy is run n
// times and the number of schedules with an oracle failure is printed. Used to measure how
// often a policy reaches an interleaving that needs two tasks lined up at one site.
func c04Probe(sites *SiteTable, n int) {
	wrapIncludes = false
	simrt.SimPools, simrt.SingleThreaded = true, true
	recs := &LV{T: "arr"}
	for i := 0; i < 6; i++ {
		recs.A = append(recs.A, &LV{T: "rec", S: fmt.Sprint("w", i), R: []string{"c", "d"}[i%2]})
	}
	env := &Env{Names: []string{"recs2"}, Vals: []*LV{recs}}
	tree := []*TNode{{K: "block", S: "for x in recs2", C: []*TNode{{K: "obj", S: "x.Label"}, {K: "text", S: ","}}}}
	cs := &C04Case{Envs: []*Env{env}, Trees: [][]*TNode{tree}, Sources: []string{Source(tree)}}
	op := C04Op{Kind: "render", T: 0, B: 0, EP: EPRender}
	cs.Tasks = [][]C04Op{{op, op}, {op, op}}
	if w, r0 := c04Build(cs); w == nil {
		fmt.Println("setup failed:", r0.Key())
		return
	}
	alone, _ := c04AloneRun(cs)
	var total int64
	for _, s := range alone.steps {
		total += s
	}
	for kind := 1; kind <= 5; kind++ {
		bad, name := 0, ""
		for i := 0; i < n; i++ {
			pol := c04Policy(NewRng(uint64(kind), uint64(i)), kind, len(cs.Tasks), total)
			name = pol.name
			fails, _ := c04RunSchedule(nil, cs, alone, pol, sites)
			if len(fails) > 0 {
				bad++
				if bad == 1 {
					fmt.Printf("  first failure: %s %s\n", fails[0].sig, clip(fails[0].detail))
				}
			}
		}
		fmt.Printf("policy kind %d (%s): %d of %d schedules fail an oracle\n", kind, name, bad, n)
	}
}
