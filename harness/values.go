package main

import (
	"bytes"
	"encoding/json"
	"fmt"
	"math/big"
	"net"
	"reflect"
	"sort"
	"strings"
	"time"

	"github.com/osteele/liquid"
	yaml "gopkg.in/yaml.v2"
)

// LV is a logical, JSON-serialisable binding value plus a representation
// annotation; Go values are built from it (several times, independently, when
// a check needs "equal bindings" at different addresses / insertion orders).
type LV struct {
	T  string   `json:"t"`           // nil bool int float str time arr map imap amap struct drop
	R  string   `json:"r,omitempty"` // representation
	B  bool     `json:"b,omitempty"`
	I  int64    `json:"i,omitempty"`
	F  float64  `json:"f,omitempty"`
	S  string   `json:"s,omitempty"`
	A  []*LV    `json:"a,omitempty"`  // elements / map values / struct: [Tags...] / drop: [inner]
	K  []string `json:"k,omitempty"`  // map keys (parallel to A)
	KI []int64  `json:"ki,omitempty"` // imap keys; amap: KI[i] used when K[i]==""
	KR []string `json:"kr,omitempty"` // amap: Go kind of numeric key i ("", int64, int32, uint8, float64)
}

// Person is the struct representation used by generated bindings.
// Base is embedded in Person: its fields are promoted.
type Base struct {
	ID   string
	Slug string `liquid:"slug"`
}

type Person struct {
	Base
	Name string
	Age  int
	Tags []string
	Nick *string `liquid:"nick"`
	note string  // unexported: invisible to templates, visible to snapshots
}

// Upper is a zero-argument method callable from templates.
func (p Person) Upper() string { return strings.ToUpper(p.Name) }

// Fail returns an error for odd ages (a method with an error result).
func (p Person) Fail() (string, error) {
	if p.Age%2 == 1 {
		return "", fmt.Errorf("person %s is odd", p.Name)
	}
	return "even", nil
}

// PtrLen has a pointer receiver.
func (p *Person) PtrLen() int { return len(p.Tags) }

// Slug implements encoding.TextMarshaler.
type Slug string

func (s Slug) MarshalText() ([]byte, error) { return []byte("slug:" + string(s)), nil }

// Page has its include-naming fields promoted from an embedded struct.
type PageMeta struct {
	Sidebar string
	Side2   string `liquid:"side"`
}

type Page struct {
	PageMeta
	Title string
}

// recA and recB return values of two DISTINCT struct types that print the same
// type name (main.Rec) and map the property "name" to different fields.
func recA(title, other string) any {
	type Rec struct {
		Title string `liquid:"name"`
		Other string
	}
	return Rec{title, other}
}

func recB(title, other string) any {
	type Rec struct {
		Other string `liquid:"name"`
		Title string
	}
	return Rec{other, title}
}

// recC and recD: two distinct struct types that both have the fields Label and Count, in
// different order (one property name, different field indexes).
func recC(label string) any {
	type Row struct {
		Label string
		Count int
	}
	return Row{label, len(label)}
}

func recD(label string) any {
	type Row struct {
		Count int
		Extra string
		Label string
	}
	return Row{len(label), "extra-" + label, label}
}

// hDrop is a pure Drop: ToLiquid returns a value fixed at construction.
type hDrop struct{ v any }

func (d hDrop) ToLiquid() any { return d.v }

// Env is a set of named logical bindings.
type Env struct {
	Names []string `json:"names"`
	Vals  []*LV    `json:"vals"`
}

func (e *Env) get(name string) *LV {
	for i, n := range e.Names {
		if n == name {
			return e.Vals[i]
		}
	}
	return nil
}

// Build constructs fresh Go values. order (may be nil) permutes map insertion.
func (e *Env) Build(r *Rng) map[string]any {
	m := make(map[string]any, len(e.Names))
	idx := make([]int, len(e.Names))
	for i := range idx {
		idx[i] = i
	}
	if r != nil {
		idx = r.Perm(len(e.Names))
	}
	for _, i := range idx {
		m[e.Names[i]] = e.Vals[i].Build(r)
	}
	return m
}

func homog(a []*LV) string {
	if len(a) == 0 {
		return ""
	}
	t := a[0].T
	for _, x := range a {
		if x.T != t {
			return ""
		}
	}
	return t
}

func (v *LV) Build(r *Rng) any {
	order := func(n int) []int {
		if r != nil {
			return r.Perm(n)
		}
		p := make([]int, n)
		for i := range p {
			p[i] = i
		}
		return p
	}
	switch v.T {
	case "nil":
		return nil
	case "bool":
		return v.B
	case "int":
		switch v.R {
		case "int64":
			return v.I
		case "int32":
			return int32(v.I)
		case "int8":
			return int8(v.I)
		case "uint8":
			return uint8(v.I)
		case "ptr":
			x := int(v.I)
			return &x
		}
		return int(v.I)
	case "float":
		if v.R == "float32" {
			return float32(v.F)
		}
		return v.F
	case "page":
		return Page{PageMeta: PageMeta{Sidebar: v.S, Side2: v.S}, Title: "t"}
	case "rec":
		switch v.R {
		case "b":
			return recB(v.S, "other-"+v.S)
		case "c":
			return recC(v.S)
		case "d":
			return recD(v.S)
		}
		return recA(v.S, "other-"+v.S)
	case "tm": // values that implement encoding.TextMarshaler
		switch v.R {
		case "ip":
			return net.IP{192, 168, byte(v.I), 1}
		case "big":
			return big.NewInt(v.I * 1000003)
		}
		return Slug(v.S)
	case "jnum":
		return json.Number(v.S)
	case "buf": // an io.WriterTo-valued binding
		return bytes.NewBufferString(v.S)
	case "tnil": // typed nils
		switch v.R {
		case "slice":
			return []any(nil)
		case "map":
			return map[string]any(nil)
		case "strptr":
			return (*string)(nil)
		}
		return (*Person)(nil)
	case "str":
		switch v.R {
		case "ptr":
			s := v.S
			return &s
		case "bytes":
			return []byte(v.S)
		}
		return v.S
	case "time":
		t, _ := time.Parse(time.RFC3339, v.S)
		return t
	case "arr":
		h := homog(v.A)
		switch {
		case v.R == "typed" && h == "str":
			out := make([]string, len(v.A))
			for i, x := range v.A {
				out[i] = x.S
			}
			return out
		case v.R == "typed" && h == "int":
			out := make([]int, len(v.A))
			for i, x := range v.A {
				out[i] = int(x.I)
			}
			return out
		case v.R == "typed" && h == "float":
			out := make([]float64, len(v.A))
			for i, x := range v.A {
				out[i] = x.F
			}
			return out
		case v.R == "ptrs" && h == "int":
			out := make([]*int, len(v.A))
			for i, x := range v.A {
				n := int(x.I)
				out[i] = &n
			}
			return out
		case v.R == "ptrs" && h == "str":
			out := make([]*string, len(v.A))
			for i, x := range v.A {
				s := x.S
				out[i] = &s
			}
			return out
		}
		spare := int(v.I) // I: spare capacity of the backing array
		if r != nil && spare > 0 {
			spare = r.Intn(2 * spare) // equal values, differently constructed: capacity is not part of the value
		}
		out := make([]any, len(v.A), len(v.A)+spare)
		// Only slices and maps are shared: whether two slices share their backing array can be
		// told only from addresses, so it is not part of the value. Two POINTERS being the same
		// pointer is visible to Go's == (uniq keeps one of them): that is part of the value,
		// and pointer elements are therefore built separately in every build.
		if v.R == "alias" && r == nil && len(v.A) > 0 && (v.A[0].T == "arr" || v.A[0].T == "map") && v.A[0].R == "" {
			shared := v.A[0].Build(nil)
			first := mustJSON(v.A[0]) // by content, so that the sharing survives a clone or a replay file
			for i, x := range v.A {
				if x == v.A[0] || mustJSON(x) == first {
					out[i] = shared // aliasing is not part of the value: equal bindings, same rendering
				} else {
					out[i] = x.Build(nil)
				}
			}
			return out
		}
		for i, x := range v.A {
			out[i] = x.Build(r)
		}
		if v.R == "ptr" {
			return &out
		}
		return out
	case "map":
		h := homog(v.A)
		switch {
		case v.R == "typed" && h == "str":
			out := map[string]string{}
			for _, i := range order(len(v.K)) {
				out[v.K[i]] = v.A[i].S
			}
			return out
		case v.R == "typed" && h == "int":
			out := map[string]int{}
			for _, i := range order(len(v.K)) {
				out[v.K[i]] = int(v.A[i].I)
			}
			return out
		case v.R == "mapslice":
			out := yaml.MapSlice{}
			for i := range v.K { // MapSlice keeps insertion order: part of the value
				out = append(out, yaml.MapItem{Key: v.K[i], Value: v.A[i].Build(r)})
			}
			return out
		}
		out := map[string]any{}
		for _, i := range order(len(v.K)) {
			out[v.K[i]] = v.A[i].Build(r)
		}
		switch v.R {
		case "ikm":
			return liquid.IterationKeyedMap(out)
		case "ptr":
			return &out
		}
		return out
	case "imap":
		if v.R == "int64" {
			out := map[int64]any{}
			for _, i := range order(len(v.KI)) {
				out[v.KI[i]] = v.A[i].Build(r)
			}
			return out
		}
		out := map[int]any{}
		for _, i := range order(len(v.KI)) {
			out[int(v.KI[i])] = v.A[i].Build(r)
		}
		return out
	case "amap":
		out := map[any]any{}
		for _, i := range order(len(v.K)) {
			if v.K[i] == "" {
				var k any = int(v.KI[i])
				if i < len(v.KR) {
					switch v.KR[i] {
					case "int64":
						k = v.KI[i]
					case "int32":
						k = int32(v.KI[i])
					case "uint8":
						k = uint8(v.KI[i])
					case "float64":
						k = float64(v.KI[i])
					}
				}
				out[k] = v.A[i].Build(r)
			} else {
				out[v.K[i]] = v.A[i].Build(r)
			}
		}
		return out
	case "struct":
		p := Person{Base: Base{ID: "id-" + v.S, Slug: "slug-" + v.S}, Name: v.S, Age: int(v.I), note: "n:" + v.S}
		for _, x := range v.A {
			p.Tags = append(p.Tags, x.S)
		}
		if v.B {
			n := "nick-" + v.S
			p.Nick = &n
		}
		if v.R == "ptr" {
			return &p
		}
		return p
	case "drop":
		return hDrop{v.A[0].Build(r)}
	}
	panic("LV.Build: bad type " + v.T)
}

// ---- generation of logical values ----

var words = []string{"a", "b", "c", "apple", "Banana", "cherry", "x y", "é", "日本", "10", "2", "", " pad ", "<b>T</b>", "a,b,c", "Z", "line1\nline2", "&amp;",
	// one word per length 6..13: filters with numeric thresholds (truncate, slice, truncatewords) need inputs on both sides of every threshold
	// date strings in several of the layouts the library recognises
	"today", "Now", "NOW", "tomorrow", // NOT the exact word "now": only that one may read the clock
	"2017-07-09", "March 3, 2021", "2020-02-29 12:00", "02 Jan 2006", "Mon, 02 Jan 2006 15:04:05 -0700",
	"2017-07-09T10:40:00Z", "2017-07-09T10:40:00+02:00", "20170709T104000Z", "2017-01-09 10:40:00 -0700", "2017-07-09 10:40:00 UTC",
	"abcdef", "seven 7", longWord, longMulti, "eight ch", "123456789", "ten chars.", "hello world", "twelve chars", "one two three"}
var longWord = strings.Repeat("lorem ipsum dolor sit amet ", 9)
var longMulti = strings.Repeat("日本語のテキスト ", 12)
var keyWords = []string{"a", "b", "c", "d", "e", "f", "g", "h", "i", "j", "k", "l", "name", "title", "n",
	"o", "p", "q", "r", "s", "t", "u", "v", "w", "x2", "y2", "z2",
	// keys that differ from others only in case
	"A", "B", "Name", "TITLE", "N", "nAmE",
	// keys named like the built-in properties
	"size", "first", "last"}

func genScalar(r *Rng) *LV {
	v := genScalar1(r)
	if noAddr && v.R == "ptr" {
		v.R = "" // nested pointers print as addresses when their container is printed whole
	}
	return v
}

func genScalar1(r *Rng) *LV {
	switch r.weighted([]int{4, 4, 2, 1, 1, 1, 1, 1}) {
	case 6:
		if r.Chance(0.4) {
			return &LV{T: "buf", S: pick(r, []string{"ab", "buffered text", ""})}
		}
		if r.Chance(0.5) {
			return &LV{T: "tm", R: pick(r, []string{"ip", "slug", "slug", "big"}), S: pick(r, []string{"", "a-b", "x"}), I: int64(r.Range(0, 9))}
		}
		return &LV{T: "jnum", S: pick(r, []string{"12", "3.5", "-7", "1e3", "0"})}
	case 7:
		return &LV{T: "tnil", R: pick(r, []string{"slice", "map", "strptr", "struct"})}
	case 0:
		return &LV{T: "str", S: pick(r, words), R: pick(r, []string{"", "", "", "ptr"})}
	case 1:
		return &LV{T: "int", I: int64(r.Range(-3, 12)), R: pick(r, []string{"", "", "int64", "int32", "int8", "ptr"})}
	case 2:
		return &LV{T: "float", F: float64(r.Range(-20, 80)) / 4, R: pick(r, []string{"", "float32"})}
	case 3:
		return &LV{T: "bool", B: r.Chance(0.5)}
	case 4:
		return &LV{T: "nil"}
	}
	return &LV{T: "time", S: pick(r, []string{"2017-02-03T04:05:06Z", "2001-12-31T23:59:59Z", "2020-02-29T12:00:00Z"})}
}

func genArr(r *Rng, depth int) *LV {
	n := r.Range(0, 6)
	v := &LV{T: "arr"}
	if r.Chance(0.3) {
		v.I = int64(r.Range(1, 8)) // []any with spare capacity (as append-built slices have)
	}
	defer func() {
		if depth > 0 && len(v.A) > 0 && r.Chance(0.15) {
			i := r.Intn(len(v.A))
			v.A[i] = &LV{T: "drop", A: []*LV{v.A[i]}} // a Drop nested inside a slice
		}
	}()
	switch r.weighted([]int{3, 3, 2, 2, 1}) {
	case 0: // strings
		for i := 0; i < n; i++ {
			v.A = append(v.A, &LV{T: "str", S: pick(r, words)})
		}
		v.R = pick(r, []string{"", "typed", "ptrs", "ptr"})
		if noAddr && v.R == "ptrs" {
			v.R = "typed"
		}
	case 1: // ints
		for i := 0; i < n; i++ {
			v.A = append(v.A, &LV{T: "int", I: int64(r.Range(-3, 12))})
		}
		v.R = pick(r, []string{"", "typed", "ptrs"})
		if noAddr && v.R == "ptrs" {
			v.R = ""
		}
	case 2: // mixed scalars incl. nil
		for i := 0; i < n; i++ {
			v.A = append(v.A, genScalar(r))
		}
	case 3: // records
		for i := 0; i < n; i++ {
			if depth > 0 {
				v.A = append(v.A, genMap(r, depth-1, 1, 3))
			} else {
				v.A = append(v.A, genScalar(r))
			}
		}
	default: // nested arrays
		for i := 0; i < n; i++ {
			if depth > 0 {
				v.A = append(v.A, genArr(r, depth-1))
			} else {
				v.A = append(v.A, genScalar(r))
			}
		}
		if depth > 0 && n > 1 && r.Chance(0.4) {
			// records sharing one default list: every inner array is the same Go slice (or a
			// prefix of it) in the canonical build and a separate equal copy in a rebuilt one
			for i := range v.A {
				v.A[i] = v.A[0]
			}
			v.R = "alias"
		}
	}
	return v
}

func genMap(r *Rng, depth, lo, hi int) *LV {
	n := r.Range(lo, hi)
	ks := r.Perm(len(keyWords))[:n]
	v := &LV{}
	kind := r.weighted([]int{8, 2, 2, 1, 1})
	switch kind {
	case 0:
		v.T = "map"
	case 1:
		v.T = "imap"
	case 2:
		v.T = "amap"
	case 3: // 64-bit ids: large keys that sit close together
		v.T, v.R = "imap", "int64"
	default: // numerically equal keys of different Go kinds (as decoded YAML/JSON may give)
		v.T = "amap"
	}
	vals := r.weighted([]int{3, 3, 3})
	for j, ki := range ks {
		var e *LV
		switch {
		case vals == 0:
			e = &LV{T: "str", S: pick(r, words)}
		case vals == 1:
			e = &LV{T: "int", I: int64(r.Range(-3, 12))}
		case depth > 0 && r.Chance(0.3):
			e = genArr(r, depth-1)
		default:
			e = genScalar(r)
		}
		v.A = append(v.A, e)
		switch v.T {
		case "map":
			v.K = append(v.K, keyWords[ki])
		case "imap":
			if v.R == "int64" {
				v.KI = append(v.KI, int64(9007199254740993)+int64(ki))
			} else {
				v.KI = append(v.KI, int64(ki*3-4))
			}
		default:
			switch {
			case kind == 4:
				v.K, v.KI = append(v.K, ""), append(v.KI, int64(j/3))
				v.KR = append(v.KR, []string{"", "int64", "float64", "int32", "uint8"}[(j+ki)%5])
				// distinct (kind, value) pairs only
				for q := 0; q < j; q++ {
					if v.KI[q] == v.KI[j] && v.KR[q] == v.KR[j] {
						v.KI[j] += 100 + int64(j)
					}
				}
			case j%2 == 0:
				v.K, v.KI, v.KR = append(v.K, keyWords[ki]), append(v.KI, 0), append(v.KR, "")
			default:
				v.K, v.KI, v.KR = append(v.K, ""), append(v.KI, int64(ki)), append(v.KR, "")
			}
		}
	}
	if v.T == "map" {
		v.R = pick(r, []string{"", "", "typed", "mapslice", "ikm", "ptr"})
	}
	if depth > 0 && len(v.A) > 0 && v.R != "typed" && r.Chance(0.15) {
		i := r.Intn(len(v.A))
		v.A[i] = &LV{T: "drop", A: []*LV{v.A[i]}} // a Drop nested inside a map
	}
	return v
}

// noAddr: do not generate values whose fmt rendering contains a heap address
// (pointer elements of slices, pointer fields of structs). C02 turns it off.
var noAddr = true

func genStruct(r *Rng) *LV {
	v := &LV{T: "struct", S: pick(r, words), I: int64(r.Range(0, 90)), B: r.Chance(0.5) && !noAddr, R: pick(r, []string{"", "ptr"})}
	for i, n := 0, r.Range(0, 3); i < n; i++ {
		v.A = append(v.A, &LV{T: "str", S: pick(r, words)})
	}
	return v
}

// GenEnv generates a binding environment. mapLo/mapHi bound map sizes (C02 wants 2..12).
func GenEnv(r *Rng, mapLo, mapHi int) *Env {
	e := &Env{}
	add := func(n string, v *LV) { e.Names = append(e.Names, n); e.Vals = append(e.Vals, v) }
	add("s", &LV{T: "str", S: pick(r, words)})
	add("t", &LV{T: "str", S: pick(r, words), R: pick(r, []string{"", "ptr"})})
	add("n", &LV{T: "int", I: int64(r.Range(-3, 12)), R: pick(r, []string{"", "int64", "ptr"})})
	add("f", &LV{T: "float", F: float64(r.Range(-20, 80)) / 4})
	add("v", genScalar(r))
	add("cond", &LV{T: "str", S: pick(r, []string{"x", "x > 2", "x < 5", "x == 1", "x.n", "x contains 'a'", "x != nil"})})
	add("arr", genArr(r, 1))
	numsR := pick(r, []string{"", "typed", "ptrs"})
	if noAddr && numsR == "ptrs" {
		numsR = "typed"
	}
	add("nums", &LV{T: "arr", R: numsR, A: func() []*LV {
		var a []*LV
		for i, n := 0, r.Range(0, 6); i < n; i++ {
			a = append(a, &LV{T: "int", I: int64(r.Range(-3, 12))})
		}
		return a
	}()})
	add("recs", &LV{T: "arr", A: func() []*LV {
		var a []*LV
		for i, n := 0, r.Range(0, 5); i < n; i++ {
			m := &LV{T: "map", K: []string{"name", "n"}, A: []*LV{{T: "str", S: pick(r, words)}, {T: "int", I: int64(r.Range(0, 5))}}}
			if r.Chance(0.2) {
				m.K, m.A = m.K[:1], m.A[:1]
			}
			a = append(a, m)
		}
		return a
	}()})
	if r.Chance(0.2) {
		// records sharing one default list (aliased in the canonical build only)
		inner := &LV{T: "arr", A: []*LV{{T: "int", I: int64(r.Range(1, 9))}, {T: "str", S: pick(r, words)}}}
		sh := &LV{T: "arr", R: "alias"}
		for i, n := 0, r.Range(2, 4); i < n; i++ {
			sh.A = append(sh.A, inner)
		}
		add("shared", sh)
	}
	if r.Chance(0.25) {
		// maps nested three deep (site.cfg.opts.k), as decoded front matter gives
		leaf := func() *LV {
			return &LV{T: "map", K: []string{pick(r, keyWords[:6]), "title"}, A: []*LV{genScalar(r), {T: "str", S: pick(r, words)}}}
		}
		mid := &LV{T: "map", K: []string{"opts", "name", "alt"}, A: []*LV{leaf(), {T: "str", S: pick(r, words)}, leaf()}}
		add("site", &LV{T: "map", K: []string{"cfg", "n", "aux"}, A: []*LV{mid, {T: "int", I: int64(r.Range(0, 9))}, leaf()}})
	}
	if r.Chance(0.35) {
		// a list of records of two different struct types that map the same property
		// names to different fields
		l := &LV{T: "arr"}
		for i, n := 0, r.Range(2, 5); i < n; i++ {
			l.A = append(l.A, &LV{T: "rec", S: pick(r, words), R: pick(r, []string{"a", "b", "c", "d", "c", "d"})})
		}
		add("recs2", l)
	}
	add("m", genMap(r, 1, mapLo, mapHi))
	add("m2", genMap(r, 0, mapLo, mapHi))
	if r.Chance(0.25) {
		// m3: a copy of m with one entry changed (and sometimes a record under one more key)
		src := (*LV)(nil)
		for i, n := range e.Names {
			if n == "m" {
				src = e.Vals[i]
			}
		}
		if src != nil && src.T == "map" && len(src.A) > 0 && (src.R == "" || src.R == "ptr") {
			src.R = "" // two plain maps
			cp := &LV{T: "map", R: src.R, K: append([]string{}, src.K...), A: append([]*LV{}, src.A...)}
			j := r.Intn(len(cp.A))
			cp.A[j] = &LV{T: "str", S: "changed-" + pick(r, words)}
			if r.Chance(0.5) && src.R == "" && !noAddr {
				k := r.Intn(len(cp.A))
				if k != j {
					st := genStruct(r)
					st.B = false // by value: a struct with a slice field cannot be compared with ==
					cp.A[k] = st
					src.A[k] = st // both maps hold the same record under that key
				}
			}
			add("m3", cp)
		}
	}
	if r.Chance(0.06) {
		// a big map (33..70 entries; as a Go map, a typed map or an ordered yaml.MapSlice):
		// size thresholds for indexes, sorting strategies and pre-sized buffers lie here
		big := &LV{T: "map", R: pick(r, []string{"", "mapslice", "mapslice", "typed"})}
		n := r.Range(33, 70)
		for i, ki := range r.Perm(len(keyWords)) {
			if i >= n {
				break
			}
			big.K = append(big.K, keyWords[ki])
		}
		for i := len(big.K); i < n; i++ {
			big.K = append(big.K, fmt.Sprintf("k%d", i))
		}
		strs := r.Chance(0.5)
		for i := range big.K {
			if strs {
				big.A = append(big.A, &LV{T: "str", S: pick(r, words)})
			} else {
				big.A = append(big.A, &LV{T: "int", I: int64(r.Range(-3, 99) + i)})
			}
		}
		add("big", big)
	}
	add("p", genStruct(r))
	add("q", &LV{T: "rec", S: pick(r, words), R: pick(r, []string{"a", "b", "c", "d"})})
	d := &LV{T: "drop"}
	defer func() {
		if r.Chance(0.15) && len(d.A) == 1 {
			d.A = []*LV{{T: "drop", A: d.A}} // a Drop whose ToLiquid yields another Drop
		}
	}()
	switch r.Intn(3) {
	case 0:
		d.A = []*LV{genMap(r, 0, mapLo, mapHi)}
	case 1:
		d.A = []*LV{genArr(r, 0)}
	default:
		d.A = []*LV{genScalar(r)}
	}
	add("d", d)
	if r.Chance(0.3) {
		add("x", genScalar(r)) // otherwise undefined: exercises nil / strict mode
	}
	if r.Chance(0.05) {
		// a caller's own map that happens to be called forloop
		add("forloop", &LV{T: "map", K: []string{"index", "name"}, A: []*LV{{T: "int", I: 99}, {T: "str", S: "mine"}}})
	}
	if noAddr {
		for _, v := range e.Vals {
			for _, c := range v.A {
				stripPtr(c)
			}
		}
	}
	return e
}

// stripPtr removes pointer representations below the top level of a binding:
// fmt prints a nested pointer as its address when the container is printed whole.
func stripPtr(v *LV) {
	if v.R == "ptr" || v.R == "ptrs" {
		v.R = ""
	}
	if v.T == "buf" { // *bytes.Buffer is a pointer
		v.T = "str"
	}
	if v.T == "tm" && v.R == "big" { // *big.Int is a pointer
		v.R = "slug"
	}
	if v.T == "tnil" {
		v.T, v.R = "nil", ""
	}
	if v.T == "struct" {
		v.B = false
	}
	for _, c := range v.A {
		stripPtr(c)
	}
}

// ---- canonical deep serialisation (snapshot) ----

// Snapshot renders a Go value canonically: type, content, pointer structure,
// unexported fields included, map keys sorted. Two snapshots are equal iff
// nothing observable about the value graph changed.
func Snapshot(v any) string {
	var sb strings.Builder
	seen := map[uintptr]int{}
	snap(&sb, reflect.ValueOf(v), seen, 0)
	return sb.String()
}

func snap(sb *strings.Builder, v reflect.Value, seen map[uintptr]int, depth int) {
	if !v.IsValid() {
		sb.WriteString("nil")
		return
	}
	if depth > 40 {
		sb.WriteString("…")
		return
	}
	t := v.Type()
	switch v.Kind() {
	case reflect.Interface:
		if v.IsNil() {
			sb.WriteString("nil")
			return
		}
		snap(sb, v.Elem(), seen, depth+1)
	case reflect.Ptr:
		if v.IsNil() {
			fmt.Fprintf(sb, "(%s)nil", t)
			return
		}
		if id, ok := seen[v.Pointer()]; ok {
			fmt.Fprintf(sb, "&#%d", id)
			return
		}
		seen[v.Pointer()] = len(seen) + 1
		fmt.Fprintf(sb, "&#%d=", len(seen))
		snap(sb, v.Elem(), seen, depth+1)
	case reflect.Slice, reflect.Array:
		if v.Kind() == reflect.Slice && v.IsNil() {
			fmt.Fprintf(sb, "%s(nil)", t)
			return
		}
		fmt.Fprintf(sb, "%s[", t)
		for i := 0; i < v.Len(); i++ {
			if i > 0 {
				sb.WriteByte(',')
			}
			snap(sb, v.Index(i), seen, depth+1)
		}
		sb.WriteByte(']')
	case reflect.Map:
		if v.IsNil() {
			fmt.Fprintf(sb, "%s(nil)", t)
			return
		}
		keys := v.MapKeys()
		ks := make([]string, len(keys))
		for i, k := range keys {
			var kb strings.Builder
			snap(&kb, k, seen, depth+1)
			ks[i] = kb.String()
		}
		idx := make([]int, len(keys))
		for i := range idx {
			idx[i] = i
		}
		sort.Slice(idx, func(a, b int) bool { return ks[idx[a]] < ks[idx[b]] })
		fmt.Fprintf(sb, "%s{", t)
		for n, i := range idx {
			if n > 0 {
				sb.WriteByte(',')
			}
			sb.WriteString(ks[i])
			sb.WriteByte(':')
			snap(sb, v.MapIndex(keys[i]), seen, depth+1)
		}
		sb.WriteByte('}')
	case reflect.Struct:
		if t == reflect.TypeOf(time.Time{}) && v.CanInterface() {
			tm := v.Interface().(time.Time)
			fmt.Fprintf(sb, "time(%s)", tm.UTC().Format(time.RFC3339Nano))
			return
		}
		fmt.Fprintf(sb, "%s{", t)
		for i := 0; i < v.NumField(); i++ {
			if i > 0 {
				sb.WriteByte(',')
			}
			sb.WriteString(t.Field(i).Name)
			sb.WriteByte(':')
			snap(sb, v.Field(i), seen, depth+1)
		}
		sb.WriteByte('}')
	case reflect.String:
		fmt.Fprintf(sb, "%s(%q)", t, v.String())
	case reflect.Bool:
		fmt.Fprintf(sb, "%s(%v)", t, v.Bool())
	case reflect.Int, reflect.Int8, reflect.Int16, reflect.Int32, reflect.Int64:
		fmt.Fprintf(sb, "%s(%d)", t, v.Int())
	case reflect.Uint, reflect.Uint8, reflect.Uint16, reflect.Uint32, reflect.Uint64, reflect.Uintptr:
		fmt.Fprintf(sb, "%s(%d)", t, v.Uint())
	case reflect.Float32, reflect.Float64:
		fmt.Fprintf(sb, "%s(%v)", t, v.Float())
	case reflect.Func:
		if v.IsNil() {
			sb.WriteString("func(nil)")
		} else {
			sb.WriteString("func")
		}
	default:
		fmt.Fprintf(sb, "%s(?)", t)
	}
}
