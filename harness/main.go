// Command worker is the simulation harness. It is built, on every check
// invocation, against the instrumented scratch copy of /repo's working tree.
//
//	worker coord  -prop C20 -tier quick -seed 1 -verif /verif -sites F -scratch D
//	worker shard  ... -shard i -of n -out F [-only 1,5,9]
//	worker replay -file F ...
package main

import (
	"encoding/json"
	"flag"
	"fmt"
	"hash/fnv"
	"os"
	"os/exec"
	"path/filepath"
	"runtime"
	"runtime/pprof"
	"sort"
	"strconv"
	"strings"
	"sync/atomic"
	"time"

	"verif.local/simrt"
)

// Violation is one failed oracle clause with everything needed to replay it.
type Violation struct {
	Property  string          `json:"property"`
	Clause    string          `json:"clause"`
	Detail    string          `json:"detail"`
	Signature string          `json:"signature"` // stable key matched against known_findings.json
	Seed      uint64          `json:"seed"`
	Index     int             `json:"index"`
	Minimised bool            `json:"minimised"`
	Case      json.RawMessage `json:"case"`
	Original  json.RawMessage `json:"original_case,omitempty"`
	Replay    string          `json:"-"`
}

// CaseOut is what running one case produced.
type CaseOut struct {
	Evals      int
	Hashes     []uint64 // hashes of distinct non-trivial executions
	Violations []*Violation
	Digest     uint64 // hash of the complete event log (determinism check)
	Sample     any
	Discarded  bool
}

// Ctx carries per-process state for a check.
type Ctx struct {
	Prop, Tier string
	Seed       uint64
	Scratch    string
	Sites      *SiteTable
	Counters   map[string]int64
	log        []byte
	Deadline   time.Time
	minDone    map[string]bool
	Shards     int // number of shard processes of this run (replay of history-dependent findings)
}

// mayMinimise rations minimisation: once per signature and at most 4 per
// process, so that a change that breaks a property everywhere cannot make a
// check run for hours. Unminimised violations are still reported and replayable.
func (c *Ctx) mayMinimise(sig string) bool {
	if c.minDone == nil {
		c.minDone = map[string]bool{}
	}
	if c.minDone[sig] || len(c.minDone) >= 4 {
		return false
	}
	c.minDone[sig] = true
	return true
}

func (c *Ctx) count(k string, n int64) { c.Counters[k] += n }
func (c *Ctx) logf(f string, a ...any) {
	c.log = append(c.log, fmt.Sprintf(f, a...)...)
	c.log = append(c.log, '\n')
}
func (c *Ctx) takeDigest() uint64 {
	h := fnv.New64a()
	h.Write(c.log)
	if d := os.Getenv("VERIF_DUMPLOG"); d != "" {
		os.WriteFile(d, c.log, 0o644)
	}
	c.log = c.log[:0]
	return h.Sum64()
}

func hashStr(parts ...string) uint64 {
	h := fnv.New64a()
	for _, p := range parts {
		h.Write([]byte(p))
		h.Write([]byte{0})
	}
	return h.Sum64()
}

// Check is implemented once per property.
type Check interface {
	Level() string
	NumCases(tier string) int
	RunCase(c *Ctx, idx int) *CaseOut
	// Replay re-executes a stored case; it returns the violation if the same
	// oracle clause fails again, else nil.
	Replay(c *Ctx, v *Violation) *Violation
	Rule() string
	Assumptions() []string
}

var checks = map[string]Check{}

// ShardResult is what a shard process reports.
type ShardResult struct {
	Evals      int               `json:"evals"`
	Cases      int               `json:"cases"`
	Discarded  int               `json:"discarded"`
	Hashes     []uint64          `json:"hashes"`
	Violations []*Violation      `json:"violations"`
	Digests    map[string]uint64 `json:"digests"`
	Samples    []any             `json:"samples"`
	Counters   map[string]int64  `json:"counters"`
	FuncHits   map[string]uint64 `json:"func_hits"`
	Steps      uint64            `json:"steps"`
	WallS      float64           `json:"wall_s"`
	SlowIdx    int               `json:"slowest_case"`
	SlowS      float64           `json:"slowest_case_s"`
}

type SiteTable struct {
	Sites []struct {
		ID   uint32 `json:"id"`
		File string `json:"file"`
		Line int    `json:"line"`
		Func string `json:"func"`
		Kind string `json:"kind"`
		Expr string `json:"expr"`
	} `json:"sites"`
	Levels          map[string]int `json:"levels"`
	StepSites       int            `json:"step_sites"`
	AccessSites     int            `json:"access_sites"`
	UncontrolledMap []string       `json:"uncontrolled_map_sites"`
	UnmodelledSync  []string       `json:"unmodelled_sync"`
	UnrecordedLHS   int            `json:"unrecorded_lhs"`
	Uninstrumented  []string       `json:"uninstrumented_packages"`
	Degraded        []string       `json:"degraded_packages"`
	byID            map[uint32]int
}

func (t *SiteTable) Name(id uint32) string {
	if t == nil {
		return fmt.Sprint("site", id)
	}
	if i, ok := t.byID[id]; ok {
		s := t.Sites[i]
		x := fmt.Sprintf("%s:%d", s.File, s.Line)
		if s.Expr != "" {
			x += " " + s.Kind + " " + s.Expr
		}
		return x
	}
	return fmt.Sprint("site", id)
}

func loadSites(path string) *SiteTable {
	t := &SiteTable{byID: map[uint32]int{}}
	b, err := os.ReadFile(path)
	if err != nil {
		fatal("sites: %v", err)
	}
	if err := json.Unmarshal(b, t); err != nil {
		fatal("sites: %v", err)
	}
	for i, s := range t.Sites {
		t.byID[s.ID] = i
	}
	return t
}

func fatal(f string, a ...any) {
	fmt.Fprintf(os.Stderr, "worker: "+f+"\n", a...)
	os.Exit(2)
}

type opts struct {
	prop, tier, verif, sites, scratch, out, only, file string
	seed                                               uint64
	shard, of, procs                                   int
}

func parseOpts(args []string) *opts {
	o := &opts{}
	fs := flag.NewFlagSet("worker", flag.ExitOnError)
	fs.StringVar(&o.prop, "prop", "", "")
	fs.StringVar(&o.tier, "tier", "quick", "")
	fs.StringVar(&o.verif, "verif", "/verif", "")
	fs.StringVar(&o.sites, "sites", "", "")
	fs.StringVar(&o.scratch, "scratch", "", "")
	fs.StringVar(&o.out, "out", "", "")
	fs.StringVar(&o.only, "only", "", "")
	fs.StringVar(&o.file, "file", "", "")
	fs.Uint64Var(&o.seed, "seed", 1, "")
	fs.IntVar(&o.shard, "shard", 0, "")
	fs.IntVar(&o.of, "of", 1, "")
	fs.IntVar(&o.procs, "procs", 16, "")
	fs.Parse(args)
	return o
}

func main() {
	if len(os.Args) < 2 {
		fatal("usage: worker coord|shard|replay ...")
	}
	o := parseOpts(os.Args[2:])
	scratchRoot = o.scratch
	setTZ(o.seed)
	if pf := os.Getenv("VERIF_CPUPROFILE"); pf != "" { // debugging aid
		if f, err := os.Create(pf); err == nil {
			pprof.StartCPUProfile(f)
			defer pprof.StopCPUProfile()
		}
	}
	switch os.Args[1] {
	case "coord":
		os.Exit(coord(o))
	case "shard":
		shard(o)
	case "replay":
		os.Exit(replay(o))
	case "selftest":
		os.Exit(selftest(o))
	case "c02canon":
		c02Canon()
	case "c04probe": // debug: worker c04probe <sites.json> <n>: a hand-made polymorphic-site case under n schedules of each policy
		sitesPath = os.Args[2]
		n, _ := strconv.Atoi(os.Args[3])
		c04Probe(loadSites(os.Args[2]), n)
	case "c14big": // debug: worker c14big <seed> <n>: cases with an include file over 1 MiB
		seed, _ := strconv.ParseUint(os.Args[2], 10, 64)
		n, _ := strconv.Atoi(os.Args[3])
		for i := 0; i < n; i++ {
			wrapIncludes = true
			cs := genC14(seed, NewRng(seed, strSeed("C14"), uint64(i)), i, c14QuickVec)
			for _, f := range cs.Files {
				if k := countText(f.Tree); k > 1<<20 {
					fmt.Printf("%d\t%s\t%s\t%d\n", i, f.Rel, stNames[f.State], k)
				}
			}
		}
	case "c02dump": // debug: worker c02dump <seed> <n> prints the generated sources
		seed, _ := strconv.ParseUint(os.Args[2], 10, 64)
		n, _ := strconv.Atoi(os.Args[3])
		for i := 0; i < n; i++ {
			cs := genC02(NewRng(seed, strSeed("C02"), uint64(i)), i)
			fmt.Printf("%d\t%v\t%q\n", i, cs.Env.Names, cs.Source)
			if os.Getenv("VERIF_DUMP_ENV") != "" {
				fmt.Printf("\tENV %s\n", mustJSON(cs.Env))
			}
		}
	case "c03exp":
		c03Exp()
	case "c04alone":
		c04AloneChild()
	default:
		fatal("unknown mode %s", os.Args[1])
	}
}

var sitesPath string

// The process time zone is one more seeded choice (the statement of C02 excepts it, so
// it is the same for every execution of a run, child processes included): a local zone
// other than UTC separates code that confuses local time with UTC. VERIF_TZ overrides.
var tzNames = []string{"Asia/Kolkata", "America/New_York", "UTC", "Pacific/Chatham"}
var curTZ = "UTC"
var inheritedTZ bool

func setTZ(seed uint64) {
	name := os.Getenv("VERIF_TZ")
	inheritedTZ = name != ""
	if name == "" {
		name = tzNames[seed%uint64(len(tzNames))]
	}
	loc, err := time.LoadLocation(name)
	if err != nil { // no zone database on this machine: every process falls back alike
		name, loc = "UTC", time.UTC
	}
	time.Local = loc
	os.Setenv("TZ", name)
	os.Setenv("VERIF_TZ", name)
	curTZ = name
}

func newCtx(o *opts) *Ctx {
	sitesPath = o.sites
	return &Ctx{Prop: o.prop, Tier: o.tier, Seed: o.seed, Scratch: o.scratch, Sites: loadSites(o.sites), Counters: map[string]int64{}}
}

func shard(o *opts) {
	ck := checks[o.prop]
	if ck == nil {
		fatal("no check for %s", o.prop)
	}
	c := newCtx(o)
	c.Shards = o.of
	if o.only != "" {
		c.Shards = 0
	}
	start := time.Now()
	res := &ShardResult{Digests: map[string]uint64{}, Counters: c.Counters, FuncHits: map[string]uint64{}}
	var idxs []int
	if o.only != "" {
		for _, s := range strings.Split(o.only, ",") {
			n, _ := strconv.Atoi(s)
			idxs = append(idxs, n)
		}
	} else {
		for i := o.shard; i < ck.NumCases(o.tier); i += o.of {
			idxs = append(idxs, i)
		}
	}
	seen := map[uint64]bool{}
	simrt.ResetCounters()
	simrt.SimPools = true
	simrt.SingleThreaded = true
	// watchdog: a case that runs longer than 5 minutes of wall time is tool trouble
	// (exit 2 with the case named), never a verdict
	var curCase atomic.Int64
	var curStart atomic.Int64
	go func() {
		for {
			time.Sleep(5 * time.Second)
			if st := curStart.Load(); st != 0 && time.Now().Unix()-st > 900 {
				fmt.Fprintf(os.Stderr, "worker: WATCHDOG: %s case %d has been running for more than 900 s; giving up (exit 2)\n", o.prop, curCase.Load())
				buf := make([]byte, 1<<16)
				n := runtime.Stack(buf, true)
				os.Stderr.Write(buf[:n])
				os.Exit(2)
			}
		}
	}()
	for _, i := range idxs {
		curCase.Store(int64(i))
		curStart.Store(time.Now().Unix())
		simrt.ResetPools()
		fuelOuts, guardMaxSteps = 0, 0
		caseStart := time.Now()
		out := ck.RunCase(c, i)
		if simrt.Unsupported != "" {
			fmt.Fprintf(os.Stderr, "worker: %s case %d cannot be run: %s (exit 2: no verdict)\n", o.prop, i, simrt.Unsupported)
			os.Exit(2)
		}
		if d := time.Since(caseStart).Seconds(); d > res.SlowS {
			res.SlowS, res.SlowIdx = d, i
		}
		if fuelOuts > 0 && len(out.Violations) > 0 {
			c.count("heavy_case_no_verdict", 1)
			out.Violations = nil
		}
		res.Cases++
		if out.Discarded {
			res.Discarded++
		}
		res.Evals += out.Evals
		for _, h := range out.Hashes {
			if !seen[h] {
				seen[h] = true
				res.Hashes = append(res.Hashes, h)
			}
		}
		for _, v := range out.Violations {
			if len(res.Violations) < 40 {
				res.Violations = append(res.Violations, v)
			} else {
				c.count("violations_beyond_cap", 1)
			}
		}
		res.Digests[strconv.Itoa(i)] = out.Digest
		if out.Sample != nil && len(res.Samples) < 2 {
			res.Samples = append(res.Samples, out.Sample)
		}
	}
	res.Steps = simrt.Steps
	for _, s := range c.Sites.Sites {
		if s.Kind == "step" && simrt.Hits[s.ID] > 0 {
			res.FuncHits[filepath.Dir(s.File)+"."+s.Func] += uint64(simrt.Hits[s.ID])
		}
	}
	res.WallS = time.Since(start).Seconds()
	b, _ := json.Marshal(res)
	if err := os.WriteFile(o.out, b, 0o644); err != nil {
		fatal("%v", err)
	}
}

// ---------------------------------------------------------------------------

type finding struct {
	Kind      string `json:"kind"` // "known" or "fixed"
	Property  string `json:"property"`
	Signature string `json:"signature"`
	What      string `json:"what"`
	Commit    string `json:"commit,omitempty"`
}

func loadFindings(verif string) []finding {
	b, err := os.ReadFile(filepath.Join(verif, "known_findings.json"))
	if err != nil {
		return nil
	}
	var f struct {
		Findings []finding `json:"findings"`
	}
	if err := json.Unmarshal(b, &f); err != nil {
		fatal("known_findings.json: %v", err)
	}
	return f.Findings
}

func spawn(o *opts, extra []string, gomaxprocs int, out string) *exec.Cmd {
	args := []string{"shard", "-prop", o.prop, "-tier", o.tier, "-seed", fmt.Sprint(o.seed), "-verif", o.verif, "-sites", o.sites, "-scratch", o.scratch, "-out", out}
	args = append(args, extra...)
	cmd := exec.Command(os.Args[0], args...)
	cmd.Env = append(os.Environ(), fmt.Sprintf("GOMAXPROCS=%d", gomaxprocs), "TZ="+curTZ)
	cmd.Stderr = os.Stderr
	cmd.Stdout = os.Stderr
	return cmd
}

func coord(o *opts) int {
	ck := checks[o.prop]
	if ck == nil {
		fatal("no check for %s", o.prop)
	}
	start := time.Now()
	sites := loadSites(o.sites)
	n := o.procs
	total := ck.NumCases(o.tier)
	if n > total {
		n = total
	}
	gmp := []int{1, 4, 16}
	var cmds []*exec.Cmd
	for i := 0; i < n; i++ {
		out := filepath.Join(o.scratch, fmt.Sprintf("shard-%d.json", i))
		cmd := spawn(o, []string{"-shard", fmt.Sprint(i), "-of", fmt.Sprint(n)}, gmp[i%3], out)
		if err := cmd.Start(); err != nil {
			fatal("start shard: %v", err)
		}
		cmds = append(cmds, cmd)
	}
	merged := &ShardResult{Digests: map[string]uint64{}, Counters: map[string]int64{}, FuncHits: map[string]uint64{}}
	seen := map[uint64]bool{}
	for i, cmd := range cmds {
		if err := cmd.Wait(); err != nil {
			fmt.Fprintf(os.Stderr, "shard %d failed: %v\n", i, err)
			return 2
		}
		var r ShardResult
		b, err := os.ReadFile(filepath.Join(o.scratch, fmt.Sprintf("shard-%d.json", i)))
		if err != nil || json.Unmarshal(b, &r) != nil {
			fmt.Fprintf(os.Stderr, "shard %d: unreadable result\n", i)
			return 2
		}
		merged.Evals += r.Evals
		merged.Cases += r.Cases
		merged.Discarded += r.Discarded
		if r.SlowS > merged.SlowS {
			merged.SlowS, merged.SlowIdx = r.SlowS, r.SlowIdx
		}
		merged.Steps += r.Steps
		for _, h := range r.Hashes {
			if !seen[h] {
				seen[h] = true
				merged.Hashes = append(merged.Hashes, h)
			}
		}
		merged.Violations = append(merged.Violations, r.Violations...)
		for k, v := range r.Digests {
			merged.Digests[k] = v
		}
		for k, v := range r.Counters {
			merged.Counters[k] += v
		}
		for k, v := range r.FuncHits {
			merged.FuncHits[k] += v
		}
		if len(merged.Samples) < 3 {
			merged.Samples = append(merged.Samples, r.Samples...)
		}
	}
	// determinism re-execution: 2% of cases (at least 20) in other processes
	// with a different GOMAXPROCS; event-log digests must be identical.
	k := total / 50
	if k < 20 {
		k = 20
	}
	if k > total {
		k = total
	}
	rr := NewRng(o.seed, strSeed("determinism"), strSeed(o.prop))
	perm := rr.Perm(total)[:k]
	sort.Ints(perm)
	var only []string
	for _, i := range perm {
		only = append(only, strconv.Itoa(i))
	}
	redo := 0
	mism := []string{}
	mismSeen := map[string]bool{}
	for rep, g := range []int{16, 1} {
		out := filepath.Join(o.scratch, fmt.Sprintf("verify-%d.json", rep))
		cmd := spawn(o, []string{"-only", strings.Join(only, ",")}, g, out)
		if err := cmd.Run(); err != nil {
			fmt.Fprintf(os.Stderr, "determinism re-execution failed: %v\n", err)
			return 2
		}
		var r ShardResult
		b, _ := os.ReadFile(out)
		if json.Unmarshal(b, &r) != nil {
			return 2
		}
		for ks, d := range r.Digests {
			redo++
			if merged.Digests[ks] != d && !mismSeen[ks] {
				mismSeen[ks] = true
				mism = append(mism, ks)
			}
		}
	}
	sort.Strings(mism)

	// violations: dedupe by signature, match against known findings
	findings := loadFindings(o.verif)
	sort.SliceStable(merged.Violations, func(i, j int) bool { return merged.Violations[i].Index < merged.Violations[j].Index })
	bySig := map[string][]*Violation{}
	var sigs []string
	for _, v := range merged.Violations {
		if _, ok := bySig[v.Signature]; !ok {
			sigs = append(sigs, v.Signature)
		}
		bySig[v.Signature] = append(bySig[v.Signature], v)
	}
	dir := filepath.Join(o.verif, "replays")
	os.MkdirAll(dir, 0o755)
	writeReplay := func(v *Violation) string {
		path := filepath.Join(dir, fmt.Sprintf("%s-%d-%d-%08x.json", o.prop, o.seed, v.Index, uint32(hashStr(v.Signature))))
		b, _ := json.MarshalIndent(v, "", " ")
		os.WriteFile(path, b, 0o644)
		return path
	}
	confirm := func(path string) bool { // re-execute the replay file in a fresh process
		cmd := exec.Command(os.Args[0], "replay", "-file", path, "-verif", o.verif, "-sites", o.sites, "-scratch", o.scratch)
		cmd.Env = append(os.Environ(), "TZ="+curTZ)
		err := cmd.Run()
		ee, ok := err.(*exec.ExitError)
		return ok && ee.ExitCode() == 1
	}
	historyDependent := false
	if len(mism) > 0 {
		// Event logs differed between processes. Either the simulator is not
		// deterministic (then nothing it reports is trusted: exit 2), or the LIBRARY's
		// behaviour depends on what the process did before (shards have different
		// histories). Decide by running one mismatching case alone in two fresh processes.
		// (up to 6 mismatching cases are examined, not just the first)
		examine := mism
		if len(examine) > 6 {
			examine = examine[:6]
		}
		for _, mc := range examine {
			var d [2]uint64
			for i := range d {
				out := filepath.Join(o.scratch, fmt.Sprintf("fresh-%d.json", i))
				cmd := spawn(o, []string{"-only", mc}, []int{4, 1}[i], out)
				if err := cmd.Run(); err != nil {
					return 2
				}
				var r ShardResult
				b, _ := os.ReadFile(out)
				if json.Unmarshal(b, &r) != nil {
					return 2
				}
				d[i] = r.Digests[mc]
			}
			if d[0] != d[1] {
				if o.prop != "C02" || len(sigs) == 0 {
					fmt.Fprintf(os.Stderr, "SIMULATOR NONDETERMINISM: case %s of %s seed %d gives different event logs in two fresh processes\n", mc, o.prop, o.seed)
					return 2
				}
				// C02's subject is exactly this: if a violation found in this run reproduces
				// from its replay file in a fresh process, the nondeterminism is the library's
				// (e.g. an iteration the instrumenter could not take control of).
				fmt.Printf("note: case %s gives different event logs even in two fresh processes; reporting only violations whose replay reproduces in a fresh process\n", mc)
				break
			}
		}
		historyDependent = true
		fmt.Printf("note: %d case(s) gave different event logs in processes with different earlier activity (first: case %s), but identical logs in two fresh processes: the library's behaviour depends on earlier activity in the process\n", len(mism), mism[0])
		if o.prop == "C02" {
			idx, _ := strconv.Atoi(mism[0])
			cj, _ := json.Marshal(map[string]any{"dimension": "earlier-activity", "index": idx, "shards": n, "tier": o.tier})
			v := &Violation{Property: "C02", Clause: "same-result", Signature: "diverge|earlier-activity|process",
				Detail: fmt.Sprintf("case %d renders differently in a process that ran the shard's earlier cases than in a fresh process: output depends on earlier activity in the process (package-level state)", idx),
				Seed:   o.seed, Index: idx, Case: cj}
			bySig[v.Signature] = []*Violation{v}
			sigs = append(sigs, v.Signature)
		}
	}
	exit := 0
	reported := 0
	var reportedList []map[string]any
	for _, sig := range sigs {
		vs := bySig[sig]
		known := false
		for _, f := range findings {
			if f.Kind == "known" && f.Property == o.prop && f.Signature == sig {
				fmt.Printf("KNOWN-FINDING: property=%s %s (%d occurrence(s) this run; signature %s)\n", o.prop, f.What, len(vs), sig)
				known = true
			}
		}
		if known {
			continue
		}
		v := vs[0]
		path := writeReplay(v)
		if historyDependent && !confirm(path) {
			// in a history-dependent library a violation is only reported if its replay
			// file reproduces it in a fresh process
			os.Remove(path)
			continue
		}
		if reported < 25 {
			fmt.Printf("VIOLATION property=%s replay=%s\n", o.prop, path)
			fmt.Printf("  clause: %s\n  detail: %s\n  signature: %s (%d occurrence(s))\n", v.Clause, v.Detail, sig, len(vs))
		} else if reported == 25 {
			fmt.Printf("(further violation signatures are listed in the evidence file and have replay files under %s)\n", dir)
		}
		reportedList = append(reportedList, map[string]any{"signature": sig, "clause": v.Clause, "detail": v.Detail, "replay": path, "occurrences": len(vs)})
		reported++
		exit = 1
	}
	if historyDependent && exit == 0 && o.prop == "C02" {
		// C02's own subject: the earlier-activity divergence was seen but its replay did not reproduce it
		fmt.Fprintf(os.Stderr, "%s: event logs differ between processes (see note above) and no %s violation could be confirmed by fresh-process replay: no verdict\n", o.prop, o.prop)
		return 2
	}
	if historyDependent {
		// Other properties: what the library does internally (step counts, hence the seeded
		// schedules and fault indices derived from them) may legitimately depend on what the
		// process did before -- a process-wide cache, say. The simulator itself was shown to
		// be deterministic (identical logs in two fresh processes for each examined case), every
		// oracle was evaluated on every execution, and any violation has been re-confirmed from
		// its replay file in a fresh process. Recorded in the evidence.
		merged.Counters["history_dependent_event_logs"] = int64(len(mism))
	}
	wall := time.Since(start).Seconds()
	writeEvidence(o, ck, sites, merged, reported, reportedList, redo, wall, total)
	if merged.SlowS > 30 {
		fmt.Printf("note: the slowest case (%d) took %.0f s\n", merged.SlowIdx, merged.SlowS)
	}
	fmt.Printf("%s %s seed=%d: %d cases, %d executions, %d distinct non-trivial, %d violation signature(s), %.1fs\n",
		o.prop, o.tier, o.seed, merged.Cases, merged.Evals, len(merged.Hashes), reported, wall)
	return exit
}

func replay(o *opts) int {
	b, err := os.ReadFile(o.file)
	if err != nil {
		fatal("%v", err)
	}
	var v Violation
	if err := json.Unmarshal(b, &v); err != nil {
		fatal("%v", err)
	}
	ck := checks[v.Property]
	if ck == nil {
		fatal("no check for %s", v.Property)
	}
	o.prop, o.seed = v.Property, v.Seed
	if !inheritedTZ {
		os.Unsetenv("VERIF_TZ")
		setTZ(v.Seed) // the zone is a function of the seed the violation was found with
	}
	c := newCtx(o)
	simrt.SimPools = true
	simrt.SingleThreaded = true
	got := ck.Replay(c, &v)
	if got == nil {
		fmt.Printf("replay: %s did not reproduce (clause %q holds on this tree)\n", o.file, v.Clause)
		return 0
	}
	fmt.Printf("VIOLATION property=%s replay=%s\n  clause: %s\n  detail: %s\n", v.Property, o.file, got.Clause, got.Detail)
	return 1
}

// selftest: determinism at scale. For every property the first n cases are
// executed in 6 separate processes (GOMAXPROCS 1, 4, 16, twice each); all
// event-log digests must be identical.
func selftest(o *opts) int {
	bad := 0
	props := []string{"C02", "C03", "C04", "C14", "C20"}
	for _, p := range props {
		n := 36
		if p == "C04" {
			n = 12
		}
		var only []string
		for i := 0; i < n; i++ {
			only = append(only, strconv.Itoa(i*7))
		}
		oo := *o
		oo.prop = p
		var cmds []*exec.Cmd
		var outs []string
		for rep := 0; rep < 2; rep++ {
			for _, g := range []int{1, 4, 16} {
				out := filepath.Join(o.scratch, fmt.Sprintf("self-%s-%d-%d.json", p, g, rep))
				list := append([]string(nil), only...)
				if rep == 1 { // the same cases in reverse order: the harness itself must not depend on what ran before
					for i, j := 0, len(list)-1; i < j; i, j = i+1, j-1 {
						list[i], list[j] = list[j], list[i]
					}
				}
				cmd := spawn(&oo, []string{"-only", strings.Join(list, ",")}, g, out)
				if err := cmd.Start(); err != nil {
					fatal("selftest: %v", err)
				}
				cmds, outs = append(cmds, cmd), append(outs, out)
			}
		}
		var ref map[string]uint64
		for i, cmd := range cmds {
			if err := cmd.Wait(); err != nil {
				fmt.Fprintf(os.Stderr, "selftest %s: shard failed: %v\n", p, err)
				return 2
			}
			var r ShardResult
			b, _ := os.ReadFile(outs[i])
			if json.Unmarshal(b, &r) != nil {
				return 2
			}
			if ref == nil {
				ref = r.Digests
				continue
			}
			for k, d := range r.Digests {
				if ref[k] != d {
					fmt.Fprintf(os.Stderr, "selftest: %s case %s: event log differs between processes\n", p, k)
					bad++
				}
			}
		}
		fmt.Printf("selftest: %s: %d cases x 6 processes (GOMAXPROCS 1/4/16; forward and reverse order): %d digest mismatch(es)\n", p, n, bad)
	}
	if bad > 0 {
		return 2
	}
	return 0
}
