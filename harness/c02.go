package main

import (
	"bytes"
	"encoding/json"
	"fmt"
	"html"
	"net/url"
	"os"
	"os/exec"
	"path/filepath"
	"regexp"
	"sort"
	"strings"
	"syscall"
	"time"
	"unsafe"

	"github.com/osteele/liquid"
	"github.com/osteele/liquid/render"
	"verif.local/simrt"
)

// C02: rendering is deterministic across runs, re-parses, engines, entry
// points, map order, map construction order, addresses, clock and history.
type c02 struct{}

func init() { checks["C02"] = c02{} }

func (c02) Level() string { return "exploration" }
func (c02) NumCases(tier string) int {
	if tier == "thorough" {
		return 300000
	}
	return 6000
}
func (c02) Rule() string {
	return "case = generated (engine config, template, logical bindings with maps of 2..12 entries, pointers at variable/element/field positions); executions = one canonical run plus one run per varied dimension (map iteration order desc/rotate/shuffle/native at every range-over-map and MapKeys site, bindings rebuilt in shuffled insertion order at new addresses, engine reused after a seeded history of other parses/renders incl. failing ones, parsed template reused vs fresh parse, each of the 6 entry points, clock jump, plain repeat, cmd/liquid child process for string-only bindings) plus seeded random combinations; oracle: all executions give the same (ok, bytes, Error(), Path(), LineNumber()). An execution is non-trivial if the template reads at least one binding; distinct by hash(source, bindings, execution settings)."
}
func (c02) Assumptions() []string {
	return []string{
		"time zone fixed to UTC; clock jumps skipped for templates containing the word now (the statement's exception)",
		"harness Drops are pure",
		"map order is controlled at the range/MapKeys sites the instrumenter rewrites (uncontrolled sites are listed in evidence and still exercised with Go's native order)",
		"fresh-process dimension: event-log digests of 2% of cases are recomputed in two other worker processes (different GOMAXPROCS) and, for string-only bindings, by the instrumented cmd/liquid binary",
	}
}

type C02Exec struct {
	Order    int    `json:"map_order"`
	Param    uint64 `json:"map_param,omitempty"`
	Rebuild  uint64 `json:"rebuild_bindings_seed,omitempty"`
	History  uint64 `json:"engine_history_seed,omitempty"` // !=0: engine reused after a history
	ReuseTpl bool   `json:"reuse_parsed_template,omitempty"`
	EP       int    `json:"entry_point"`
	Writer   int    `json:"writer_kind,omitempty"` // destination of the FRender forms (see WriterKind)
	Jump     int64  `json:"clock_jump_s,omitempty"`
	Again    bool   `json:"repeat,omitempty"`
	Reconf   bool   `json:"reconfigured_engine,omitempty"` // engine first used with other delimiters, then given this configuration
	CLI      bool   `json:"cli,omitempty"`
	TTY      bool   `json:"cli_stdout_is_a_terminal,omitempty"` // with CLI: standard output is a pseudo-terminal (raw mode), not a pipe
}

type C02Case struct {
	Cfg     EngCfg            `json:"cfg"`
	Env     *Env              `json:"env"`
	Tree    []*TNode          `json:"tree"`
	Source  string            `json:"source"`
	EnvOnly bool              `json:"env_only,omitempty"`
	Prelude []string          `json:"prelude,omitempty"`         // earlier activity of this process: sources rendered (on another engine) before the canonical execution
	Inc     map[string]string `json:"cached_includes,omitempty"` // path as registered with ParseTemplateAndCache -> source
	Prefix  *C02Prefix        `json:"process_history,omitempty"`
	A       *C02Exec          `json:"exec_a,omitempty"` // the two executions that disagree
	B       *C02Exec          `json:"exec_b,omitempty"`
	Dim     string            `json:"dimension,omitempty"`
}

// C02Prefix names the earlier activity of the process in which a fresh-process
// divergence was seen: the cases index%shards == this.index%shards below index.
type C02Prefix struct {
	Index  int    `json:"index"`
	Shards int    `json:"shards"`
	Tier   string `json:"tier"`
}

var t0 = time.Unix(1700000000, 0).UTC()

// c02Canon (mode c02canon): a pristine child process executes the canonical
// run of the case given on stdin and prints the result tuple.
func c02Canon() {
	simrt.SingleThreaded = true
	scrubAddrs, noAddr = false, false
	simrt.SimPools = true
	var cs C02Case
	if err := json.NewDecoder(os.Stdin).Decode(&cs); err != nil {
		fatal("c02canon: %v", err)
	}
	x := newC02Run(&cs, "")
	res := x.exec(&C02Exec{Order: simrt.OrderAsc, EP: EPRender})
	fmt.Print(res.Key()) // %q-escaped: safe for output that is not valid UTF-8
}

func (x *c02Run) execChild() (string, bool) {
	cmd := exec.Command(os.Args[0], "c02canon")
	cmd.Env = append(os.Environ(), "TZ="+curTZ)
	b, _ := json.Marshal(x.cs)
	cmd.Stdin = bytes.NewReader(b)
	var so bytes.Buffer
	cmd.Stdout = &so
	cmd.Stderr = os.Stderr
	if err := cmd.Run(); err != nil {
		return "", false
	}
	return so.String(), true
}

func genC02(r *Rng, idx int) *C02Case {
	cs := &C02Case{Cfg: genCfg(r, 0.1)}
	cs.Cfg.apply() // Source() during generation must already use this case's delimiters
	if idx%8 == 0 {
		cs.EnvOnly = true
		cs.Cfg.Delims = nil // cmd/liquid has no option for delimiters
		cs.Cfg.apply()
		cs.Env = &Env{}
		for _, n := range []string{"s", "t", "u", "w"} {
			cs.Env.Names = append(cs.Env.Names, n)
			cs.Env.Vals = append(cs.Env.Vals, &LV{T: "str", S: strings.ReplaceAll(pick(r, words), "\x00", "")})
		}
		g := NewGen(r.Fork(2), r.Range(3, 16))
		g.NoCustom = true // cmd/liquid has only the standard tags and filters
		cs.Tree = g.Nodes(scope{strs: cs.Env.Names}, 0, 6)
		g.fixErrors(cs.Tree)
		if r.Chance(0.08) {
			// the page starts with what a site generator would take for YAML front matter
			fm := []*TNode{{K: "text", S: "---\n"}, {K: "tag", S: "assign fm = " + pick(r, []string{"3", "s", `"x"`})}, {K: "text", S: "\ntitle: x\n---\n"}}
			cs.Tree = append(fm, append(cs.Tree, &TNode{K: "obj", S: "fm"})...)
		}
	} else {
		cs.Env = GenEnv(r.Fork(1), 2, 12)
		g := NewGen(r.Fork(2), r.Range(3, 24))
		if r.Chance(0.15) {
			// includes served from the template cache; some paths are registered only
			// under spellings that are not the cleaned form the include tag asks for
			cs.Inc = map[string]string{}
			g.incArgs = []string{`"inc0.html"`, `"inc1.html"`, `"sub/inc2.html"`}
			ig := NewGen(r.Fork(4), 4)
			cs.Inc["inc0.html"] = "[inc0]" + Source(ig.Template(cs.Env))
			cs.Inc["./inc1.html"] = "[inc1 as ./inc1.html]"
			cs.Inc["x/../inc1.html"] = "[inc1 as x/../inc1.html]"
			cs.Inc["sub//inc2.html"] = "[inc2 as sub//inc2.html]"
			cs.Inc["sub/./inc2.html"] = "[inc2 as sub/./inc2.html]"
			if r.Chance(0.5) {
				cs.Inc["inc1.html"] = "[inc1]{{ s }}"
			}
		}
		g.MapEmphasis = r.Chance(0.75)
		if !g.MapEmphasis {
			g.ArrEmphasis = true
		}
		cs.Tree = g.Template(cs.Env)
		if r.Chance(0.08) {
			cs.Tree = g.Sweep(cs.Env, pickFocus(r.Fork(5)), r.Range(5, 12))
		}
	}
	cs.Source = Source(cs.Tree)
	if !cs.EnvOnly {
		// earlier activity for the fresh-process dimension: the same inputs and filters
		// with other argument values, rendered on another engine before the canonical run
		sg := NewGen(r.Fork(3), 0)
		for i, n := 0, r.Range(1, 3); i < n; i++ {
			cs.Prelude = append(cs.Prelude, Source(sg.Sibling(cs.Tree, cs.Env)))
		}
	}
	return cs
}

type c02Run struct {
	cs     *C02Case
	src    string
	b0     map[string]any
	shared map[uint64]*liquid.Engine
	tpls   map[uint64]*liquid.Template
	cli    string
}

func newC02Run(cs *C02Case, cli string) *c02Run {
	cs.Cfg.apply()
	return &c02Run{cs: cs, src: Source(cs.Tree), b0: cs.Env.Build(nil), shared: map[uint64]*liquid.Engine{}, tpls: map[uint64]*liquid.Template{}, cli: cli}
}

var garbage [][]byte

// newEngine: an engine with the case's configuration and cache registrations.
func (x *c02Run) newEngine() *liquid.Engine {
	e := NewEngine(x.cs.Cfg)
	x.register(e)
	return e
}

// register puts the case's cached includes into e.
func (x *c02Run) register(e *liquid.Engine) {
	paths := make([]string, 0, len(x.cs.Inc))
	for p := range x.cs.Inc {
		paths = append(paths, p)
	}
	sort.Strings(paths)
	for _, p := range paths {
		src := x.cs.Inc[p]
		guard(func() Res {
			e.ParseTemplateAndCache([]byte(src), p, 1)
			return Res{}
		})
	}
}

func (x *c02Run) engine(h uint64) *liquid.Engine {
	if h == 0 {
		return x.newEngine()
	}
	if e, ok := x.shared[h]; ok {
		return e
	}
	// earlier activity elsewhere in the process: ANOTHER engine is configured
	// differently (overrides standard filters, defines names this case may misspell)
	other := NewEngine(x.cs.Cfg) // same tags (their arguments are evaluated the same way), other filters
	other.RegisterFilter("upcase", func(s string) string { return "!other-engine-upcase!" })
	other.RegisterFilter("join", func(a []any) string { return "!other-engine-join!" })
	other.RegisterFilter("size", func(a any) int { return -77 })
	other.RegisterFilter("upcas", func(s string) string { return "!defined-elsewhere!" })
	other.RegisterFilter("nosuchfilter", func(s string) string { return "!defined-elsewhere!" })
	other.RegisterTag("only_on_other", func(render.Context) (string, error) { return "!other-engine-tag!", nil })
	other.RegisterFilter("hx", func(s string) string { return "!other-engine-hx!" })
	other.RegisterFilter("hwhere", func(a []any, name string, x any) []any { return nil })
	guard(func() Res {
		other.ParseAndRenderString(dOL+` "x" | upcase `+dOR+dTL+` echo 1 `+dTR, map[string]any{})
		return Res{}
	})
	// ... and renders this case's own template (and prelude) first: whatever the process
	// remembers per expression text now comes from an engine with other filters and tags
	guard(func() Res { other.ParseAndRenderString(x.src, x.b0); return Res{} })
	for _, src := range x.cs.Prelude {
		guard(func() Res { other.ParseAndRenderString(src, x.b0); return Res{} })
	}
	e := x.newEngine()
	// a seeded history of other activity on this engine, including failures
	hr := NewRng(h)
	env := GenEnv(hr.Fork(1), 2, 6)
	simrt.SetMapOrder(simrt.OrderShuffle, h)
	for i, n := 0, hr.Range(1, 5); i < n; i++ {
		g := NewGen(hr.Fork(uint64(i)), hr.Range(2, 12))
		g.feat["errors"] = true
		src := Source(g.Template(env))
		if hr.Chance(0.2) {
			src += "{% if %}" // parse failure
		}
		b := env.Build(hr)
		ep := hr.Intn(NumEP)
		var tpl *liquid.Template
		if ep < EPParseAndRender {
			p := Parse(e, src)
			if p.T == nil {
				continue
			}
			tpl = p.T
		}
		if hr.Chance(0.3) {
			Run(EPFRender+3*hr.Intn(2), e, tpl, src, b, &FaultWriter{K: hr.Intn(4), Sticky: true})
		} else {
			Run(ep, e, tpl, src, b, nil)
		}
	}
	x.shared[h] = e
	return e
}

func (x *c02Run) exec(ex *C02Exec) Res {
	if ex.CLI {
		return x.execCLI(ex.TTY)
	}
	e := x.engine(ex.History)
	if ex.Reconf {
		// an engine that was used with OTHER delimiters first and only then given the
		// case's delimiters must behave like one configured up front
		e = NewEngine(EngCfg{Strict: x.cs.Cfg.Strict, Delims: []string{"(:", ":)", "(!", "!)"}})
		e.ParseString("(: 1 :)(! if true !)x(! endif !)")
		d := x.cs.Cfg.Delims
		if len(d) != 4 {
			d = []string{"{{", "}}", "{%", "%}"}
		}
		e.Delims(d[0], d[1], d[2], d[3])
		x.cs.Cfg.apply()
		x.register(e)
	}
	b := x.b0
	if ex.Rebuild != 0 {
		br := NewRng(ex.Rebuild)
		garbage = nil
		for i, n := 0, br.Range(1, 40); i < n; i++ { // perturb the allocator so addresses differ
			garbage = append(garbage, make([]byte, br.Range(1, 512)))
		}
		b = x.cs.Env.Build(br)
	}
	var tpl *liquid.Template
	if ex.EP < EPParseAndRender {
		if ex.ReuseTpl && ex.History != 0 && x.tpls[ex.History] != nil {
			tpl = x.tpls[ex.History]
		} else {
			simrt.SetMapOrder(ex.Order, ex.Param)
			p := Parse(e, x.src)
			if ex.Again || ex.Rebuild != 0 || ex.Jump != 0 {
				p = ParseBytes(e, x.src) // the []byte entry point; the buffer is overwritten once it returns
			}
			if p.T == nil {
				p.Err.Stage = ""
				return p.Err
			}
			tpl = p.T
			if ex.History != 0 {
				x.tpls[ex.History] = tpl
			}
		}
	}
	simrt.SetMapOrder(ex.Order, ex.Param)
	simrt.SetClock(t0.Add(time.Duration(ex.Jump) * time.Second))
	WriterKind = ex.Writer
	defer func() { WriterKind = 0 }()
	res := Run(ex.EP, e, tpl, x.src, b, nil)
	if ex.Again {
		simrt.SetMapOrder(ex.Order, ex.Param)
		res = Run(ex.EP, e, tpl, x.src, b, nil)
	}
	res.Stage = "" // parse errors surface identically through ParseAnd* and Parse+Render
	return res
}

// openPTY returns the two ends of a fresh pseudo-terminal whose output processing is
// off (bytes written to the slave arrive unchanged at the master). Linux only.
func openPTY() (master, slave *os.File, err error) {
	ioctl := func(fd, req uintptr, arg unsafe.Pointer) error {
		if _, _, e := syscall.Syscall(syscall.SYS_IOCTL, fd, req, uintptr(arg)); e != 0 {
			return e
		}
		return nil
	}
	master, err = os.OpenFile("/dev/ptmx", os.O_RDWR|syscall.O_NOCTTY, 0)
	if err != nil {
		return nil, nil, err
	}
	var unlock, n int32
	if err = ioctl(master.Fd(), syscall.TIOCSPTLCK, unsafe.Pointer(&unlock)); err == nil {
		err = ioctl(master.Fd(), syscall.TIOCGPTN, unsafe.Pointer(&n))
	}
	if err == nil {
		slave, err = os.OpenFile(fmt.Sprintf("/dev/pts/%d", n), os.O_RDWR|syscall.O_NOCTTY, 0)
	}
	if err == nil {
		var t syscall.Termios
		if err = ioctl(slave.Fd(), syscall.TCGETS, unsafe.Pointer(&t)); err == nil {
			t.Oflag &^= syscall.OPOST
			t.Lflag &^= syscall.ECHO
			err = ioctl(slave.Fd(), syscall.TCSETS, unsafe.Pointer(&t))
		}
	}
	if err != nil {
		master.Close()
		if slave != nil {
			slave.Close()
		}
		return nil, nil, err
	}
	return master, slave, nil
}

// noPTY: no pseudo-terminal on this machine (probed once per process, so that the plan of
// executions is the same in every process): the dimension is then skipped.
var noPTY, ptyProbed bool

func probePTY() {
	if ptyProbed {
		return
	}
	ptyProbed = true
	m, s, err := openPTY()
	if err != nil {
		noPTY = true
		return
	}
	m.Close()
	s.Close()
}

func (x *c02Run) execCLI(tty bool) Res {
	args := []string{"--env"}
	if x.cs.Cfg.Strict {
		args = append(args, "--strict")
	}
	fromFile := len(x.src)%2 == 0
	if fromFile { // `liquid FILE` instead of standard input
		f, err := os.CreateTemp("", "verif-cli-*.liquid")
		if err == nil {
			f.WriteString(x.src)
			f.Close()
			defer os.Remove(f.Name())
			args = append(args, f.Name())
		} else {
			fromFile = false
		}
	}
	cmd := exec.Command(x.cli, args...)
	cmd.Env = []string{}
	for i, n := range x.cs.Env.Names {
		cmd.Env = append(cmd.Env, n+"="+x.cs.Env.Vals[i].S)
	}
	if !fromFile {
		cmd.Stdin = strings.NewReader(x.src)
	}
	cmd.Env = append(cmd.Env, "TZ="+curTZ)
	var so, se bytes.Buffer
	cmd.Stdout, cmd.Stderr = &so, &se
	var err error
	if tty {
		master, slave, perr := openPTY()
		if perr != nil {
			noPTY = true
			return Res{Panic: "no pseudo-terminal: " + perr.Error()}
		}
		cmd.Stdout = slave
		done := make(chan struct{})
		go func() { // drain the master while the child runs; ends with EIO once the slave is closed
			buf := make([]byte, 4096)
			for {
				n, rerr := master.Read(buf)
				so.Write(buf[:n])
				if rerr != nil {
					break
				}
			}
			close(done)
		}()
		err = cmd.Run()
		slave.Close()
		<-done
		master.Close()
	} else {
		err = cmd.Run()
	}
	if err == nil {
		return Res{OK: true, Out: so.String()}
	}
	if ee, ok := err.(*exec.ExitError); ok && ee.ExitCode() == 1 {
		msg := strings.TrimSuffix(se.String(), "\n")
		return Res{Err: scrub(msg), Out: so.String()}
	}
	return Res{Panic: fmt.Sprintf("cmd/liquid: %v: %s", err, se.String())}
}

// cliKey: what the command-line tool can show of a result.
func cliKey(r Res) string {
	return fmt.Sprintf("ok=%v|out=%q|err=%q|panic=%v", r.OK, r.Out, r.Err, r.Panic != "")
}

// mayReadClock: the template may legitimately hand the exact word "now" to a date
// conversion (the statement's exception): it contains that word, or it can lower-case a
// binding such as "Now" / "NOW".
func mayReadClock(cs *C02Case) bool {
	if strings.Contains(cs.Source, "now") {
		return true
	}
	if strings.Contains(cs.Source, "downcase") {
		for _, v := range cs.Env.Vals {
			if strings.Contains(strings.ToLower(mustJSON(v)), "now") {
				return true
			}
		}
		if strings.Contains(strings.ToLower(cs.Source), "now") {
			return true
		}
	}
	return false
}

// c02Plan: the canonical execution plus one variation per dimension, plus combos.
func c02Plan(r *Rng, cs *C02Case) (canon *C02Exec, vars []struct {
	dim string
	ex  *C02Exec
}) {
	canon = &C02Exec{Order: simrt.OrderAsc, EP: EPRender}
	add := func(dim string, f func(e *C02Exec)) {
		e := *canon
		f(&e)
		vars = append(vars, struct {
			dim string
			ex  *C02Exec
		}{dim, &e})
	}
	add("repeat", func(e *C02Exec) { e.Again = true })
	add("engine-reconfigured", func(e *C02Exec) { e.Reconf = true })
	add("map-order", func(e *C02Exec) { e.Order = simrt.OrderDesc })
	add("map-order", func(e *C02Exec) { e.Order, e.Param = simrt.OrderRotate, uint64(r.Range(1, 11)) })
	add("map-order", func(e *C02Exec) { e.Order, e.Param = simrt.OrderShuffle, r.U64() })
	add("map-order", func(e *C02Exec) { e.Order, e.Param = simrt.OrderShuffle, r.U64() })
	add("map-order-native", func(e *C02Exec) { e.Order = simrt.OrderNative })
	add("rebuilt-bindings", func(e *C02Exec) { e.Rebuild = r.U64() | 1 })
	add("rebuilt-bindings", func(e *C02Exec) { e.Rebuild = r.U64() | 1 })
	h := r.U64() | 1
	add("engine-history", func(e *C02Exec) { e.History = h })
	add("reused-template", func(e *C02Exec) { e.History, e.ReuseTpl = h, true })
	for ep := 1; ep < NumEP; ep++ {
		ep := ep
		add("entry-point", func(e *C02Exec) { e.EP = ep })
	}
	for wk := 1; wk <= 3; wk++ {
		wk := wk
		add("entry-point", func(e *C02Exec) { e.EP, e.Writer = pick(r, []int{EPFRender, EPParseAndFRender}), wk })
	}
	if !mayReadClock(cs) {
		add("clock", func(e *C02Exec) { e.Jump = int64(r.Range(1, 400000000)) })
	}
	if cs.EnvOnly && !mayReadClock(cs) { // the child reads the real clock
		add("cli-process", func(e *C02Exec) { e.CLI = true })
		if probePTY(); !noPTY && r.Chance(0.5) {
			add("cli-process", func(e *C02Exec) { e.CLI, e.TTY = true, true }) // standard output is a terminal
		}
	}
	for i := 0; i < 4; i++ { // random combinations
		add("combination", func(e *C02Exec) {
			e.Order, e.Param = pick(r, []int{simrt.OrderDesc, simrt.OrderRotate, simrt.OrderShuffle, simrt.OrderNative}), r.U64()
			if r.Chance(0.5) {
				e.Rebuild = r.U64() | 1
			}
			if r.Chance(0.5) {
				e.History, e.ReuseTpl = h, r.Chance(0.5)
			}
			e.EP = r.Intn(NumEP)
			e.Writer = r.Intn(4)
			e.Again = r.Chance(0.3)
			if !mayReadClock(cs) && r.Chance(0.5) {
				e.Jump = int64(r.Range(1, 400000000))
			}
		})
	}
	return
}

type c02Fail struct {
	dim, detail, sig string
	a, b             *C02Exec
}

var cliPath string

// c02Find runs all executions of a case; returns the first disagreement (per dimension).
func c02Find(c *Ctx, cs *C02Case, r *Rng, out *CaseOut, wantSig string) []c02Fail {
	x := newC02Run(cs, cliPath)
	canon, vars := c02Plan(r, cs)
	if len(cs.Prelude) > 0 {
		// earlier activity of this process, BEFORE the canonical execution: another engine,
		// configured differently (same tags, other filters), renders sibling templates and
		// this very template. A pristine child process then gives the reference.
		pe := NewEngine(cs.Cfg)
		pe.RegisterFilter("upcase", func(s string) string { return "!prelude-engine-upcase!" })
		pe.RegisterFilter("join", func(a []any) string { return "!prelude-engine-join!" })
		pe.RegisterFilter("size", func(a any) int { return -78 })
		pe.RegisterFilter("hx", func(s string) string { return "!prelude-engine-hx!" })
		pe.RegisterFilter("append", func(s, t string) string { return "!prelude-engine-append!" })
		simrt.SetMapOrder(simrt.OrderAsc, 0)
		simrt.SetClock(t0)
		for _, src := range append(append([]string{}, cs.Prelude...), x.src) {
			Run(EPParseAndRender, pe, nil, src, x.b0, nil)
		}
	}
	base := x.exec(canon)
	hasPtr := nestedPtrFree(cs) != nil
	if c != nil {
		c.logf("canon: %s", digestKey(hasPtr, base))
	}
	out.Evals++
	if base.Panic != "" {
		out.Discarded = true
		return nil
	}
	u := map[string]bool{}
	constructs(cs.Tree, u)
	nontrivial := strings.Contains(cs.Source, "{{") || strings.Contains(cs.Source, "{%")
	var fails []c02Fail
	seen := map[string]bool{}
	if (c != nil || strings.HasPrefix(wantSig, "diverge|fresh-process|")) && nontrivial {
		// fresh-process dimension: the same canonical execution in a pristine child
		// process (no earlier activity at all) must give the same tuple
		if cr, ok := x.execChild(); ok {
			out.Evals++
			if c != nil {
				c.count("fault:fresh-process", 1)
			}
			if addrRe.ReplaceAllString(cr, "A") != addrRe.ReplaceAllString(base.Key(), "A") && !addressOnly(cs, x.cli, cr, base.Key(), nil, true) {
				sig := "diverge|fresh-process|" + c02Construct(u)
				if wantSig == "" || strings.HasPrefix(wantSig, "diverge|fresh-process|") {
					seen[sig] = true
					fails = append(fails, c02Fail{dim: "fresh-process", sig: sig, a: canon, b: canon,
						detail: fmt.Sprintf("the canonical render gives %s in this process (after its earlier activity) but %s in a fresh process: output depends on earlier activity in the process", clip(base.Key()), clip(cr))})
					if wantSig != "" {
						return fails
					}
				}
			}
		} else if c != nil {
			c.count("fresh_process_child_failed", 1)
		}
	}
	for _, v := range vars {
		res := x.exec(v.ex)
		out.Evals++
		eb, _ := json.Marshal(v.ex)
		if c != nil {
			if v.ex.Order != simrt.OrderNative && !v.ex.CLI {
				c.logf("%s %s: %s", v.dim, eb, digestKey(hasPtr, res))
			}
			c.count("fault:"+v.dim, 1)
			c.count("map_iterations_controlled", int64(simrt.MapIterations()))
			if nontrivial {
				out.Hashes = append(out.Hashes, hashStr(x.src, Snapshot(cs.Env), string(eb)))
			}
		}
		same := res.Key() == base.Key()
		if v.ex.CLI {
			same = cliKey(res) == cliKey(base)
			if v.ex.TTY && strings.HasPrefix(res.Panic, "no pseudo-terminal") {
				if c != nil {
					c.count("cli_terminal_unavailable", 1)
				}
				continue
			}
		}
		if !same {
			kind := "diverge"
			if base.Panic == "" && res.Panic == "" && (digestKey(false, res) == digestKey(false, base) ||
				(!v.ex.CLI && addressOnly(cs, x.cli, res.Key(), base.Key(), v.ex, false))) {
				kind = "address-in-output"
			}
			dim := v.dim
			if dim == "map-order-native" && v.ex.Order == simrt.OrderNative && anyPrefix(seen, kind+"|map-order|") {
				continue // same cause as the controlled map-order divergence already recorded
			}
			if dim == "combination" && anyPrefix(seen, kind+"|") {
				continue // combinations exist to catch interactions; a single dimension already explains this case
			}
			sig := kind + "|" + dim + "|" + c02Construct(u)
			if kind == "address-in-output" {
				cls := addrClass(base, res)
				if strings.HasSuffix(cls, "|bare-pointer") && !v.ex.CLI {
					// The text may say "bare" only because later filters took away the brackets around
					// the address. The experiment decides: if the divergence vanishes once the pointers
					// inside maps, structs and nested slices are replaced by their pointees -- slices of
					// pointers that are bindings themselves are left as they are -- the address came
					// from inside a composite.
					keepPtrSlices = true
					if addressOnly(cs, x.cli, res.Key(), base.Key(), v.ex, false) {
						cls = strings.TrimSuffix(cls, "bare-pointer") + "pointer-inside-fmt-composite"
					}
					keepPtrSlices = false
				}
				sig = kind + "|" + cls
			}
			if seen[sig] || (wantSig != "" && sig != wantSig) {
				continue
			}
			seen[sig] = true
			fails = append(fails, c02Fail{dim: v.dim, sig: sig, a: canon, b: v.ex,
				detail: fmt.Sprintf("same template and bindings, two executions disagree (dimension %s): canonical %s gives %s; %s gives %s", v.dim, mustJSON(canon), clip(base.Key()), eb, clip(res.Key()))})
			if wantSig != "" {
				return fails
			}
		}
	}
	if !base.Intact() && !seen["diverge|returned-bytes|"] && (wantSig == "" || wantSig == "diverge|returned-bytes|") {
		fails = append(fails, c02Fail{dim: "returned-bytes", sig: "diverge|returned-bytes|", a: canon, b: canon,
			detail: fmt.Sprintf("the []byte returned by Render (%q) was overwritten by later renders: it now reads %q", clip(base.Out), clip(string(base.bytes)))})
	}
	return fails
}

var hexRun = regexp.MustCompile(`[0-9a-fA-FxX]+`)
var longHexRun = regexp.MustCompile(`[0-9a-fA-FxX]{5,}`)

// digestKey is what goes into the event-log digest (the simulator's own determinism
// check) for a result: exact, except for cases whose bindings contain pointers below
// the top level -- there printed heap addresses (possibly mangled by later filters:
// upcase, remove_first, replace) differ between processes, so long hex-ish runs are
// blanked. The oracle itself always compares exact keys.
func digestKey(hasNestedPtr bool, r Res) string {
	// (addresses are blanked in the output itself, before a long output is reduced to a digest)
	if hasNestedPtr {
		r.Out = longHexRun.ReplaceAllString(r.Out, "H")
		return longHexRun.ReplaceAllString(r.Key(), "H")
	}
	r.Out = addrRe.ReplaceAllString(r.Out, "0xADDR")
	return addrRe.ReplaceAllString(r.Key(), "0xADDR")
}

// sameSkeleton: the two strings differ only inside runs of hex-ish characters.
func sameSkeleton(a, b string) bool {
	return hexRun.ReplaceAllString(a, "#") == hexRun.ReplaceAllString(b, "#")
}

// nestedPtrFree returns a copy of the case whose bindings have every pointer
// below the top level replaced by its pointee (nil if there is none to replace).
// keepPtrSlices: leave bindings that ARE slices of pointers alone (their elements print bare
// when a filter walks them, which is the fixed join defect, not the known finding).
var keepPtrSlices bool

func nestedPtrFree(cs *C02Case) *C02Case {
	c := *cs
	c.Env = cloneEnv(cs.Env)
	before := mustJSON(c.Env)
	for _, v := range c.Env.Vals {
		for _, ch := range v.A {
			stripPtr(ch)
		}
		if v.T == "struct" {
			v.B = false
		}
		if v.R == "ptrs" && !keepPtrSlices { // a slice of pointers: its ELEMENTS are pointers below the top level
			v.R = "typed"
		}
		if v.T == "drop" && len(v.A) == 1 {
			stripPtr(v.A[0])
		}
	}
	if mustJSON(c.Env) == before {
		return nil
	}
	return &c
}

// addressOnly decides whether a divergence between two result keys is the known
// "pointer nested inside a fmt-printed composite" effect even though later filters
// have mangled the printed address beyond recognition (upcase -> 0XC000…, remove_first
// cutting digits out, replace putting a word in): the two executions live in different
// address spaces AND the divergence vanishes when the pointers below the top level of
// the bindings are replaced by their pointees (same template, same execution settings,
// same rebuild seeds -- so a dependence on map construction order, which the rebuilt
// bindings also vary, would persist and is not excused).
func addressOnly(cs *C02Case, cli string, a, b string, ex *C02Exec, child bool) bool {
	// Only executions that live in a different address space than the canonical one
	// can differ because of addresses: rebuilt bindings or another process.
	if !child && (ex == nil || ex.Rebuild == 0) {
		return false
	}
	c2 := nestedPtrFree(cs)
	if c2 == nil {
		return false
	}
	x2 := newC02Run(c2, cli)
	base2 := x2.exec(&C02Exec{Order: simrt.OrderAsc, EP: EPRender})
	if child {
		k, ok := x2.execChild()
		return ok && k == base2.Key()
	}
	return x2.exec(ex).Key() == base2.Key()
}

// addrClass says where in the result the heap address shows up: inside a
// composite rendered by fmt (struct, map, nested slice), in output or in error
// text, or as a bare pointer.
func addrClass(a, b Res) string {
	where, s := "output", a.Out
	if a.Out == b.Out {
		where, s = "error", a.Err
	}
	// undo what later filters commonly do to the printed value (upcase, url_encode, escape)
	s = strings.ToLower(s)
	for i := 0; i < 4; i++ { // (a filter chain may encode more than once: "%255B" is "[" encoded twice)
		u, err := url.QueryUnescape(s)
		if err != nil || u == s {
			break
		}
		s = u
	}
	for i := 0; i < 3; i++ {
		u := html.UnescapeString(s)
		if u == s {
			break
		}
		s = u
	}
	loc := looseAddr.FindStringIndex(s)
	if loc == nil {
		return where + "|pointer-inside-fmt-composite" // mangled beyond recognition; established by addressOnly
	}
	if strings.HasSuffix(s[:loc[0]], ":") {
		// "key:0xc000..." is how fmt prints a map entry or a struct field: inside a composite even
		// if a later filter took the brackets away
		return where + "|pointer-inside-fmt-composite"
	}
	depth := 0
	for _, ch := range s[:loc[0]] {
		switch ch {
		case '{', '[', '(':
			depth++
		case '}', ']', ')':
			if depth > 0 {
				depth--
			}
		}
	}
	if depth > 0 {
		return where + "|pointer-inside-fmt-composite"
	}
	return where + "|bare-pointer"
}

var looseAddr = regexp.MustCompile(`0xc0[0-9a-f]{4,}`)

func anyPrefix(m map[string]bool, p string) bool {
	for k := range m {
		if strings.HasPrefix(k, p) {
			return true
		}
	}
	return false
}

func clip(s string) string {
	if len(s) > 400 {
		return s[:400] + "…"
	}
	return s
}

func mustJSON(v any) string { b, _ := json.Marshal(v); return string(b) }

// c02Construct names the constructs of a (minimised) template: the signature's construct key.
func c02Construct(u map[string]bool) string {
	var ks []string
	for k := range u {
		if k != "trim" {
			ks = append(ks, strings.TrimPrefix(strings.TrimPrefix(k, "tag:"), "filter:"))
		}
	}
	sort.Strings(ks)
	if len(ks) > 3 {
		ks = ks[:3]
	}
	return strings.Join(ks, "+")
}

func (ck c02) RunCase(c *Ctx, idx int) *CaseOut {
	wrapIncludes = false
	scrubAddrs, noAddr = false, false
	if cliPath == "" {
		cliPath = os.Getenv("VERIF_LIQUID_CLI")
	}
	r := NewRng(c.Seed, strSeed("C02"), uint64(idx))
	cs := genC02(r, idx)
	out := &CaseOut{}
	fails := c02Find(c, cs, r.Fork(9), out, "")
	u := map[string]bool{}
	constructs(cs.Tree, u)
	for k := range u {
		c.count("use:"+k, 1)
	}
	for _, f := range fails {
		out.Violations = append(out.Violations, c02Violation(c, cs, f, idx))
	}
	out.Digest = c.takeDigest()
	if idx%197 == 0 {
		canon, vars := c02Plan(NewRng(1), cs)
		out.Sample = map[string]any{"source": cs.Source, "bindings": cs.Env, "canonical": canon, "one_variation": vars[idx%len(vars)].ex, "executions": len(vars) + 1}
	}
	return out
}

func c02Violation(c *Ctx, cs *C02Case, f c02Fail, idx int) *Violation {
	orig := *cs
	orig.A, orig.B, orig.Dim = f.a, f.b, f.dim
	if f.dim == "fresh-process" {
		// the divergence needs this process's earlier activity: not minimised; the replay
		// re-runs the shard's earlier cases first
		if c.Shards > 0 {
			orig.Prefix = &C02Prefix{Index: idx, Shards: c.Shards, Tier: c.Tier}
		}
		ob, _ := json.Marshal(orig)
		return &Violation{Property: "C02", Clause: "same-result", Detail: f.detail, Signature: "diverge|fresh-process|", Seed: c.Seed, Index: idx, Case: ob}
	}
	ob, _ := json.Marshal(orig)
	if !c.mayMinimise(f.sig) {
		return &Violation{Property: c.Prop, Clause: "same-result", Detail: f.detail, Signature: f.sig, Seed: c.Seed, Index: idx, Case: ob}
	}
	deadline := time.Now().Add(20 * time.Second)
	cur := orig
	// minimisation keeps (kind, dimension) but lets the construct part change
	prefix := f.sig[:strings.LastIndex(f.sig, "|")+1]
	test := func(cand *C02Case) (c02Fail, bool) {
		o := &CaseOut{}
		for _, ff := range c02Find(nil, cand, NewRng(c.Seed, uint64(idx), 77), o, "") {
			if strings.HasPrefix(ff.sig, prefix) {
				return ff, true
			}
		}
		return c02Fail{}, false
	}
	cur.Tree = minimiseTree(cur.Tree, deadline, func(t []*TNode) bool {
		cand := cur
		cand.Tree = t
		cand.Source = Source(t)
		_, ok := test(&cand)
		return ok
	})
	cur.Source = Source(cur.Tree)
	cur.Env = minimiseEnv(cur.Env, deadline, func(e *Env) bool {
		cand := cur
		cand.Env = e
		_, ok := test(&cand)
		return ok
	})
	v := &Violation{Property: "C02", Clause: "same-result", Detail: f.detail, Signature: f.sig, Seed: c.Seed, Index: idx, Original: ob}
	if mf, ok := test(&cur); ok {
		cur.A, cur.B = mf.a, mf.b
		v.Detail, v.Signature, v.Minimised = mf.detail, mf.sig, true
		v.Case, _ = json.Marshal(cur)
	} else {
		v.Case = ob
	}
	return v
}

func (ck c02) Replay(c *Ctx, v *Violation) *Violation {
	scrubAddrs, noAddr = false, false
	cliPath = os.Getenv("VERIF_LIQUID_CLI")
	var ea struct {
		Dimension string `json:"dimension"`
		Index     int    `json:"index"`
		Shards    int    `json:"shards"`
		Tier      string `json:"tier"`
	}
	if json.Unmarshal(v.Case, &ea) == nil && ea.Dimension == "earlier-activity" {
		// this (fresh) process first runs the shard's earlier cases, then the case;
		// a child process runs the case alone; their event logs must agree.
		c.Tier = ea.Tier
		var d uint64
		for i := ea.Index % ea.Shards; i <= ea.Index; i += ea.Shards {
			d = ck.RunCase(c, i).Digest
		}
		out := filepath.Join(c.Scratch, "ea-child.json")
		cmd := exec.Command(os.Args[0], "shard", "-prop", "C02", "-tier", ea.Tier, "-seed", fmt.Sprint(c.Seed), "-only", fmt.Sprint(ea.Index), "-sites", sitesPath, "-scratch", c.Scratch, "-out", out)
		cmd.Env = append(os.Environ(), "TZ="+curTZ)
		if err := cmd.Run(); err != nil {
			fatal("replay child: %v", err)
		}
		var r ShardResult
		b, _ := os.ReadFile(out)
		json.Unmarshal(b, &r)
		if r.Digests[fmt.Sprint(ea.Index)] != d {
			return &Violation{Property: "C02", Clause: "same-result", Signature: v.Signature,
				Detail: fmt.Sprintf("case %d: event log after the shard's %d earlier case(s) differs from the event log in a fresh process", ea.Index, ea.Index/ea.Shards)}
		}
		return nil
	}
	var cs C02Case
	if err := json.Unmarshal(v.Case, &cs); err != nil {
		fatal("replay: %v", err)
	}
	if cs.Dim == "fresh-process" && cs.Prefix != nil {
		c.Tier = cs.Prefix.Tier
		for i := cs.Prefix.Index % cs.Prefix.Shards; i < cs.Prefix.Index; i += cs.Prefix.Shards {
			simrt.ResetPools()
			ck.RunCase(c, i) // the earlier activity of the process the divergence was seen in
		}
		scrubAddrs, noAddr = false, false
	}
	if cs.Dim == "returned-bytes" || cs.Dim == "fresh-process" {
		o := &CaseOut{}
		for _, f := range c02Find(nil, &cs, NewRng(1), o, v.Signature) {
			fmt.Printf("replay: template %q: %s\n", cs.Source, f.detail)
			return &Violation{Property: "C02", Clause: "same-result", Detail: f.detail, Signature: f.sig}
		}
		return nil
	}
	x := newC02Run(&cs, cliPath)
	tries := 1
	if cs.B.Order == simrt.OrderNative || len(c.Sites.UncontrolledMap) > 0 {
		tries = 200 // an uncontrolled site: Go's own randomisation decides
	}
	for i := 0; i < tries; i++ {
		a, b := x.exec(cs.A), x.exec(cs.B)
		same := a.Key() == b.Key()
		if cs.B.CLI {
			same = cliKey(a) == cliKey(b)
		}
		if !same {
			fmt.Printf("replay: template %q\n  exec A %s -> %s\n  exec B %s -> %s\n", cs.Source, mustJSON(cs.A), clip(a.Key()), mustJSON(cs.B), clip(b.Key()))
			return &Violation{Property: "C02", Clause: "same-result", Detail: fmt.Sprintf("executions disagree: %s vs %s", clip(a.Key()), clip(b.Key())), Signature: v.Signature}
		}
	}
	return nil
}
