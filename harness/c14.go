package main

import (
	"encoding/json"
	"fmt"
	"os"
	"path/filepath"
	"regexp"
	"strings"
	"syscall"
	"time"

	"github.com/osteele/liquid"
	"github.com/osteele/liquid/render"
	"verif.local/simrt"
)

// C14: include renders the named file (or cached source) with the current variables.
type c14 struct{}

func init() { checks["C14"] = c14{} }

func (c14) Level() string { return "fault_enumeration" }

const c14QuickVec, c14ThoroughVec = 36, 216

func (c14) NumCases(tier string) int {
	if tier == "thorough" {
		return 1200 * c14ThoroughVec
	}
	return 150 * c14QuickVec
}
func (c14) Rule() string {
	return "case = generated include graph (root at a random directory depth, 1..6 target files incl. ../ and sub-directory names, nested includes from files in the root's directory, acyclic, depth<=4; arguments as literals, variables and filtered expressions, plus non-string arguments) x one state vector (per file: disk only / cache only / both with different content / missing / directory at that name / parent component is a regular file; vectors enumerated without repetition per graph, exhaustive for graphs of <=3 files in the thorough tier) x a fault-free render, then EVERY file-system call index j of that render failed with each of EIO, EACCES, EMFILE, ENOENT, then a seeded history of disk changes (create/delete/replace) with a re-render of the same parsed root after each. Oracle: harness tags snap/mark bracket every include and record the live bindings; the bracketed output must equal a direct render of the content the disk/cache model selects, with those bindings. Non-trivial: at least one include executed; distinct by hash(root source, files, state vector, fault, history step)."
}
func (c14) Assumptions() []string {
	return []string{
		"nested includes are generated only in files that live in the root template's directory (where 'relative to the includer' and 'relative to the root' coincide); cache keys are registered in filepath.Join-cleaned form",
		"an unreadable (non-ENOENT error, directory, ENOTDIR) path that is also cached may yield the error or the cached content: the statement is silent",
		"disk state is real files under the scratch directory; injected errors enter at the os.ReadFile seam (calls that reach the disk another way escape injection and are visible as fs_calls=0)",
		"map order and clock pinned; generated templates contain no other error constructs",
	}
}

const (
	stDisk = iota
	stCache
	stBoth
	stMissing
	stDir
	stNotDir
	numStates
)

var stNames = []string{"disk", "cache", "both", "missing", "directory", "parent-is-file"}

type C14File struct {
	Rel    string   `json:"rel"` // as written in include arguments, relative to the root's directory
	Tree   []*TNode `json:"tree"`
	Alt    []*TNode `json:"alt_tree"` // cache content when State==both
	State  int      `json:"state"`
	Cached bool     `json:"also_cached,omitempty"` // for directory / parent-is-file states
}

type C14Step struct {
	Op   string `json:"op"` // create delete replace
	File int    `json:"file"`
}

type C14Case struct {
	Cfg        EngCfg            `json:"cfg"`
	Env        *Env              `json:"env"`
	RootRel    string            `json:"root_rel"`                // e.g. "r1/r2/root.html" below the case directory
	Pathless   bool              `json:"pathless_root,omitempty"` // the root is parsed WITHOUT a source path (ParseString); includes then resolve against the working directory, which is the root directory for the duration of the case
	ArgTargets map[string]string `json:"arg_targets,omitempty"`   // include argument expression -> the string it denotes (known by construction)
	Root       []*TNode          `json:"root"`
	Source     string            `json:"source"`
	Files      []*C14File        `json:"files"`
	// a second root in a sibling directory that includes the same files (and has
	// files of the same names of its own): nested includes must resolve against
	// whichever root is being rendered
	Root2Rel string     `json:"root2_rel,omitempty"`
	Root2    []*TNode   `json:"root2,omitempty"`
	Files2   []*C14File `json:"files2,omitempty"`
	History  []C14Step  `json:"history,omitempty"`
	// a second, self-contained oracle by construction (see c14Inline)
	Loop *C14Loop `json:"loop,omitempty"`
	// failing execution
	FaultJ     int    `json:"fault_call"` // -1: no injected fault
	FaultErrno string `json:"fault_errno,omitempty"`
	AtStep     int    `json:"at_history_step"` // 0 = initial render
}

// C14Loop: an include inside a loop whose file only READS variables. By construction
// the render must equal the render of the same root with the file's content written in
// the include's place ("inserts exactly the output that rendering that file's content
// directly would give", "with the includer's current variables" -- here including the
// loop's own: the loop variable, forloop.*, the cycle state). Unlike the other C14
// oracles this one does not use the library to compute the expectation of the included
// part in isolation, so code that the include path and a direct render share cannot
// hide behind it.
type C14Loop struct {
	Pre    []*TNode `json:"pre"`
	Head   string   `json:"head"`            // "for it in nums" / "tablerow it in arr cols: 2"
	Outer  string   `json:"outer,omitempty"` // an enclosing loop head, or ""
	Body1  []*TNode `json:"body1"`
	Body2  []*TNode `json:"body2"`
	Post   []*TNode `json:"post"`
	File   []*TNode `json:"file"`
	Arg    string   `json:"arg"`
	Cached bool     `json:"cached,omitempty"`
}

func genC14Loop(r *Rng, env *Env) *C14Loop {
	l := &C14Loop{Cached: r.Chance(0.3)}
	g := NewGen(r.Fork(1), r.Range(2, 10))
	for _, f := range []string{"trim", "errors", "breaks"} {
		delete(g.feat, f)
	}
	g.feat["cycle"] = true
	sc := scopeOf(env)
	g.env = env
	l.Pre = g.Nodes(sc, 1, 2)
	if r.Chance(0.5) {
		l.Pre = append(l.Pre, &TNode{K: "tag", S: "assign zz = " + g.scalarExpr(sc)})
	}
	name := pick(r, []string{"for", "for", "tablerow"})
	l.Head = name + " it in " + g.arrayExpr(sc)
	if r.Chance(0.3) {
		l.Head += " limit: " + fmt.Sprint(r.Range(1, 4))
	}
	if r.Chance(0.2) {
		l.Head += " reversed"
	}
	if name == "tablerow" && r.Chance(0.6) {
		l.Head += " cols: " + fmt.Sprint(r.Range(1, 3))
	}
	if r.Chance(0.25) {
		l.Outer = "for ot in (1.." + fmt.Sprint(r.Range(1, 3)) + ")"
	}
	inner := sc.clone()
	inner.anys = append(inner.anys, "it", "it[0]", "it.name", "it.Title", "zz", "forloop.index", "forloop.rindex0", "forloop.first", "forloop.length")
	g.loop, g.loopVars = 1, []string{"it"}
	l.Body1 = g.Nodes(inner, 2, 2)
	l.Body2 = g.Nodes(inner, 2, 2)
	// the file: nodes that only read
	fg := NewGen(r.Fork(2), r.Range(2, 12))
	for _, f := range []string{"trim", "errors", "breaks"} {
		delete(fg.feat, f)
	}
	fg.feat["cycle"], fg.feat["nest"] = true, true
	fg.ReadOnly, fg.env = true, env
	fg.loop, fg.loopVars = 1, []string{"it"}
	l.File = fg.Nodes(inner, 1, 5)
	if r.Chance(0.6) {
		l.File = append(l.File, &TNode{K: "tag", S: "cycle " + quote(pick(r, []string{"odd", "a", "x"})) + ", " + quote(pick(r, []string{"even", "b"})) + pick(r, []string{"", `, "third"`})})
	}
	if r.Chance(0.6) {
		l.File = append(l.File, &TNode{K: "obj", S: pick(r, []string{"forloop.index", "forloop.rindex", "forloop.last", "forloop.length", "it", "zz", "forloop.index0"})})
	}
	l.Arg = pick(r, []string{`"lp.html"`, `"./lp.html"`, `"lp" | append: ".html"`})
	g.loop, g.loopVars = 0, nil
	l.Post = g.Nodes(sc, 1, 2)
	// Text that ends in "{" (or "%", "}") joins the next tag's delimiter into another token;
	// where the joins fall differs between the two spellings of the root. Not the subject here.
	for _, ns := range [][]*TNode{l.Pre, l.Body1, l.Body2, l.Post, l.File} {
		cleanBraces(ns)
	}
	return l
}

// cleanBraces takes the delimiter characters out of literal text (and keeps "{{-1}}" from
// reading as a trim marker and a 1).
func cleanBraces(ns []*TNode) {
	for _, n := range ns {
		if n.K == "text" || n.K == "raw" || n.K == "comment" {
			n.S = strings.NewReplacer("{", "(", "}", ")", "%", "#").Replace(n.S)
		}
		if n.K == "obj" && (strings.HasPrefix(n.S, "-") || strings.HasSuffix(n.S, "-")) {
			n.Sp = 0
		}
		cleanBraces(n.C)
		for _, cl := range n.Cl {
			cleanBraces(cl.C)
		}
	}
}

// trees builds the root with the include (a) and with the content inlined (b).
func (l *C14Loop) trees() (a, b []*TNode) {
	mk := func(mid []*TNode) []*TNode {
		body := append(append(append([]*TNode{}, l.Body1...), mid...), l.Body2...)
		loop := &TNode{K: "block", S: l.Head, C: body}
		if l.Outer != "" {
			loop = &TNode{K: "block", S: l.Outer, C: []*TNode{loop}}
		}
		return append(append(append([]*TNode{}, l.Pre...), loop), l.Post...)
	}
	return mk([]*TNode{{K: "tag", S: "include " + l.Arg}}), mk(l.File)
}

func c14Inline(c *Ctx, cs *C14Case, scratch, tag string, out *CaseOut) *c14Fail {
	l := cs.Loop
	cs.Cfg.apply()
	dir := filepath.Join(scratch, "fsroot", fmt.Sprintf("p%d", os.Getpid()), tag+"-inl")
	os.RemoveAll(dir)
	if err := os.MkdirAll(dir, 0o755); err != nil {
		fatal("mkdir: %v", err)
	}
	defer os.RemoveAll(dir)
	ta, tb := l.trees()
	wrapIncludes, includeMode = true, 1
	srcA, srcB, srcF := Source(ta), Source(tb), Source(l.File)
	includeMode = 0
	simrt.SetMapOrder(simrt.OrderAsc, 0)
	simrt.SetClock(t0)
	render := func(src string, withFile bool) Res {
		e := NewEngine(cs.Cfg)
		fp := filepath.Join(dir, "lp.html")
		os.Remove(fp)
		if withFile {
			if l.Cached {
				if r := guard(func() Res {
					if _, err := e.ParseTemplateAndCache([]byte(srcF), fp, 1); err != nil {
						return errRes(err, "parse")
					}
					return Res{OK: true}
				}); !r.OK {
					return r
				}
			} else if err := os.WriteFile(fp, []byte(srcF), 0o644); err != nil {
				fatal("write: %v", err)
			}
		}
		p := ParseLoc(e, src, filepath.Join(dir, "root.html"), 1)
		if p.T == nil {
			return p.Err
		}
		return Run(EPRender, e, p.T, "", cs.Env.Build(nil), nil)
	}
	rb := render(srcB, false)
	out.Evals++
	if c != nil {
		c.logf("inline: %s", rb.Key())
	}
	if !rb.OK {
		if c != nil {
			c.count("inline_oracle_skipped_inlined_render_fails", 1)
		}
		return nil
	}
	ra := render(srcA, true)
	out.Evals++
	if c != nil {
		c.logf("include-in-loop: %s", ra.Key())
		c.count("inline_oracle_compared", 1)
	}
	if ra.Key() == rb.Key() {
		return nil
	}
	return &c14Fail{clause: "include-equals-inlined", sig: "include-equals-inlined", j: -1,
		detail: fmt.Sprintf("root %q with lp.html = %q gives %s, but the same root with that content written in place of the include tag gives %s (the file only reads variables: the two must agree)", srcA, srcF, clip(ra.Key()), clip(rb.Key()))}
}

func genC14(seed uint64, r *Rng, idx, vecs int) *C14Case {
	graph := idx / vecs
	gr := NewRng(seed, strSeed("C14-graph"), uint64(graph))
	cs := &C14Case{Cfg: genCfg(gr.Fork(71), 0.15)}
	cs.Cfg.apply() // Source() during generation must already use this case's delimiters
	depth := gr.Range(1, 3)
	dirs := []string{}
	for i := 0; i < depth; i++ {
		dirs = append(dirs, fmt.Sprintf("r%d", i))
	}
	cs.RootRel = filepath.Join(append(dirs, "root.html")...)
	cs.Pathless = gr.Chance(0.2)
	cs.Env = GenEnv(gr.Fork(1), 0, 4)
	n := gr.Range(1, 4)
	if gr.Chance(0.2) {
		n = gr.Range(5, 6)
	}
	rels := []string{"a.html", `b\nav.html`, "d2/c.html", "../up.html", "d4/e.html", `f\tab.html`} // two names contain a backslash (legal in file names; string literals have no escapes)
	gr2 := gr.Fork(2)
	if gr.Fork(3).Chance(0.15) {
		rels[0] = "p{{v}}.html" // a name that contains an object: a name is a name, nothing in it is evaluated
	}
	for i := 0; i < n; i++ {
		cs.Files = append(cs.Files, &C14File{Rel: rels[i]})
	}
	// bindings that name include targets
	for i, f := range cs.Files {
		cs.Env.Names = append(cs.Env.Names, fmt.Sprintf("inc%d", i))
		cs.Env.Vals = append(cs.Env.Vals, &LV{T: "str", S: f.Rel})
		cs.Env.Names = append(cs.Env.Names, fmt.Sprintf("stem%d", i))
		cs.Env.Vals = append(cs.Env.Vals, &LV{T: "str", S: strings.TrimSuffix(f.Rel, ".html")})
		// the same name in a field promoted from an embedded struct (Person.Base.ID)
		cs.Env.Names = append(cs.Env.Names, fmt.Sprintf("pg%d", i))
		cs.Env.Vals = append(cs.Env.Vals, &LV{T: "page", S: f.Rel})
		// the same name behind a pointer and behind a Drop that yields a Drop
		cs.Env.Names = append(cs.Env.Names, fmt.Sprintf("incp%d", i))
		cs.Env.Vals = append(cs.Env.Vals, &LV{T: "str", S: f.Rel, R: "ptr"})
		cs.Env.Names = append(cs.Env.Names, fmt.Sprintf("incd%d", i))
		cs.Env.Vals = append(cs.Env.Vals, &LV{T: "drop", A: []*LV{{T: "drop", A: []*LV{{T: "str", S: f.Rel}}}}})
	}
	cs.ArgTargets = map[string]string{}
	argsFor0 := func(i int) []string {
		f := cs.Files[i]
		stem := strings.TrimSuffix(f.Rel, ".html")
		return []string{quote(f.Rel), quote(f.Rel), fmt.Sprintf("inc%d", i), fmt.Sprintf(`stem%d | append: ".html"`, i),
			quote("./" + f.Rel), quote("x/../" + f.Rel),
			quote(stem) + ` | append: ".html"`, `'` + stem + `' | append: '.html'`, quote("zz"+f.Rel) + ` | remove: "zz"`,
			quote("zz"+f.Rel) + ` | replace: "zz", ""`, quote(f.Rel) + ` | slice: 0, 99`,
			fmt.Sprintf("incp%d", i), fmt.Sprintf("incd%d", i), quote("y//../" + f.Rel), fmt.Sprintf("pg%d.Sidebar", i),
			fmt.Sprintf("inc%d | pathof", i), quote(f.Rel) + " | pathof",
			// the argument wrapped over two lines
			quote(f.Rel) + "\n  | append: \"\"", fmt.Sprintf("inc%d\n| pathof", i),
			// a filter whose Go result is a []byte (the value of a filtered expression is then a string)
			fmt.Sprintf("inc%d | bytesof", i), quote(f.Rel) + " | bytesof",
			// a name that starts with a slash is still a name below the template's directory
			quote("/" + f.Rel), `"" | append: "/" | append: ` + quote(f.Rel),
			// white space is part of a name: these name other (missing) files
			quote(f.Rel + " "), quote(" " + f.Rel), fmt.Sprintf(`inc%d | append: "\n"`, i)}
	}
	argsFor := func(i int) []string {
		as := argsFor0(i)
		for _, a := range as {
			// what each expression denotes is known by construction (every form is some spelling of f.Rel)
			rel := cs.Files[i].Rel
			switch {
			case strings.HasPrefix(a, `"./`):
				rel = "./" + rel
			case strings.HasPrefix(a, `"x/../`):
				rel = "x/../" + rel
			case strings.HasPrefix(a, `"y//../`):
				rel = "y//../" + rel
			case strings.HasPrefix(a, `"/`), strings.HasPrefix(a, `"" | append: "/"`):
				rel = "/" + rel
			case strings.HasSuffix(a, ` "`):
				rel = rel + " "
			case strings.HasPrefix(a, `" `):
				rel = " " + rel
			case strings.HasSuffix(a, `| append: "\n"`):
				rel = rel + `\n` // string literals have no escapes: a backslash and an n
			}
			cs.ArgTargets[a] = rel
		}
		return as
	}
	// file contents: file i may include files j>i if it lives in the root's directory
	for i := n - 1; i >= 0; i-- {
		f := cs.Files[i]
		mkTree := func(tag uint64) []*TNode {
			g := NewGen(gr2.Fork(uint64(i)*7+tag), gr2.Range(1, 8))
			delete(g.feat, "errors")
			if i < n-1 && i < 3 {
				for j := i + 1; j < n; j++ {
					if countText(cs.Files[j].Tree) > 1<<20 {
						continue // a multi-megabyte file is included once, from the root's top level, never from a place that may be in a loop
					}
					g.incArgs = append(g.incArgs, argsFor(j)[:3]...)
				}
			}
			t := g.Template(cs.Env)
			// an identifying marker and the variable the root assigned; placed first or
			// last, with or without trim markers (a file may begin with white space and
			// end on a "-}}")
			gg := g.r
			mark := []*TNode{{K: "text", S: fmt.Sprintf("[%s:%d]", f.Rel, tag)}, {K: "obj", S: "zz", TL: gg.Chance(0.2), TR: gg.Chance(0.3)}}
			if gg.Chance(0.3) {
				mark[0], mark[1] = mark[1], mark[0]
			}
			if gg.Chance(0.5) {
				t = append(t, mark...)
			} else {
				t = append(mark, t...)
			}
			if gg.Chance(0.3) {
				t = append([]*TNode{{K: "text", S: pick(gg, []string{" ", "\n", "  \n"})}}, t...)
			}
			if gg.Chance(0.25) { // leading white space split by a silent tag
				t = append([]*TNode{{K: "text", S: "\n"}, {K: "tag", S: "assign w1 = 1"}, {K: "text", S: "\n  "}}, t...)
			}
			if gg.Chance(0.25) { // trailing white space split by a silent tag
				t = append(t, &TNode{K: "text", S: "  \n"}, &TNode{K: "tag", S: "assign w2 = 2"}, &TNode{K: "text", S: "\n"})
			}
			if gg.Chance(0.05) {
				t = []*TNode{{K: "tag", S: "assign w3 = 3"}} // a file that renders to nothing
			}
			if gg.Chance(0.1) {
				t = append([]*TNode{{K: "text", S: "\ufeff"}}, t...) // the file starts with a UTF-8 byte-order mark
			}
			if gg.Chance(0.012) {
				// a big file: just past a power-of-two size (buffer and limit boundaries), with
				// something to render after the padding
				size := pick(gg, []int{4 << 10, 64 << 10, 1 << 20, 4 << 20, 8 << 20})
				pad := strings.Repeat("0123456789abcde\n", size/16+1)
				t = append(t, &TNode{K: "text", S: pad}, &TNode{K: "obj", S: "zz"}, &TNode{K: "text", S: fmt.Sprintf("[end of %s]", f.Rel)})
			}
			return t
		}
		f.Tree, f.Alt = mkTree(1), mkTree(2)
	}
	g := NewGen(gr2.Fork(99), gr2.Range(4, 20))
	delete(g.feat, "errors")
	for i := range cs.Files {
		if countText(cs.Files[i].Tree) > 1<<20 {
			argsFor(i) // (registers what the arguments denote)
			continue
		}
		g.incArgs = append(g.incArgs, argsFor(i)...)
	}
	if gr2.Chance(0.3) {
		g.incArgs = append(g.incArgs, "5", "nil", "arr", quote("nosuch.html"))
	}
	root := []*TNode{{K: "tag", S: `assign zz = "<zz-assigned>"`}}
	root = append(root, g.Template(cs.Env)...)
	// make sure at least one include executes unconditionally
	root = append(root, &TNode{K: "tag", S: "include " + pick(gr2, argsFor(gr2.Intn(n)))})
	for i, f := range cs.Files {
		if countText(f.Tree) > 4<<10 { // a big file is worth including for certain
			root = append(root, &TNode{K: "tag", S: "include " + argsFor(i)[0]})
		}
	}
	cs.Root = root
	if gr2.Chance(0.6) && !cs.Pathless {
		// second root in a sibling directory of the first
		d := append(append([]string{}, dirs[:len(dirs)-1]...), "q1")
		cs.Root2Rel = filepath.Join(append(d, "root2.html")...)
		up := "../" + dirs[len(dirs)-1] + "/"
		g2 := NewGen(gr2.Fork(98), gr2.Range(2, 10))
		delete(g2.feat, "errors")
		for i := range cs.Files {
			if countText(cs.Files[i].Tree) > 1<<20 {
				continue
			}
			for _, a := range argsFor(i)[:2] {
				g2.incArgs = append(g2.incArgs, quote(up+strings.Trim(a, `"'`)))
			}
		}
		for _, nme := range []string{"a.html", "b.html", "f.html"} {
			f2 := &C14File{Rel: nme, State: pick(gr2, []int{stDisk, stDisk, stMissing, stCache})}
			f2.Tree = []*TNode{{K: "text", S: "[q1/" + nme + "]"}, {K: "obj", S: "zz"}}
			f2.Alt = []*TNode{{K: "text", S: "[q1-cached/" + nme + "]"}}
			cs.Files2 = append(cs.Files2, f2)
			g2.incArgs = append(g2.incArgs, quote(nme))
		}
		r2 := []*TNode{{K: "tag", S: `assign zz = "<zz-root2>"`}}
		r2 = append(r2, g2.Template(cs.Env)...)
		r2 = append(r2, &TNode{K: "tag", S: "include " + quote(up+cs.Files[0].Rel)})
		cs.Root2 = r2
	}

	// state vector: distinct per (idx % vecs) within a graph
	V := 1
	for i := 0; i < n; i++ {
		V *= numStates
	}
	stride := 1
	for _, s := range []int{5, 7, 11, 13, 17, 35, 1} { // coprime to 6^n
		if s < V || V == 1 {
			stride = s
			break
		}
	}
	start := int(gr.U64() % uint64(V))
	vec := (start + (idx%vecs)*stride) % V
	for i := 0; i < n; i++ {
		cs.Files[i].State = vec % numStates
		vec /= numStates
		if (!strings.Contains(cs.Files[i].Rel, "/") || strings.HasPrefix(cs.Files[i].Rel, "..")) && cs.Files[i].State == stNotDir {
			cs.Files[i].State = stMissing // needs a parent component below the root's directory
		}
		cs.Files[i].Cached = r.Chance(0.5)
	}
	for i, k := 0, r.Range(0, 3); i < k; i++ {
		cs.History = append(cs.History, C14Step{Op: pick(r, []string{"create", "delete", "replace", "reregister-bad", "reregister-good", "delete"}), File: r.Intn(n)})
	}
	if cs.Root2 != nil {
		cs.History = append(cs.History, C14Step{Op: "switch-root"})
		if r.Chance(0.5) {
			cs.History = append(cs.History, C14Step{Op: "switch-root"})
		}
	}
	if idx%3 == 0 {
		cs.Loop = genC14Loop(r.Fork(91), cs.Env)
	}
	if strings.Contains(rels[0], "{{") {
		// A tag that contains "}}" (inside the file's name) closes an object that literal text
		// ending in "{" would open just before it: where tokens begin would then depend on the
		// include tags being there. Not the subject: such graphs have no delimiter characters
		// in their literal text.
		cleanBraces(cs.Root)
		cleanBraces(cs.Root2)
		for _, f := range append(append([]*C14File{}, cs.Files...), cs.Files2...) {
			cleanBraces(f.Tree)
			cleanBraces(f.Alt)
		}
	}
	return cs
}

// ---- harness tags: snap / mark ----

type snapRec struct {
	id     int
	target any
	args   string
	evalOK bool
	vars   map[string]any
	closed bool
	inCap  bool // inside a capture: no mark follows, the output is not in the main stream
}

type snapState struct {
	recs  []*snapRec
	stack []int
}

var curSnap *snapState

func registerSnap(e *liquid.Engine) {
	e.RegisterTag("snap", func(ctx render.Context) (string, error) {
		st := curSnap
		if st == nil {
			return "", nil
		}
		rec := &snapRec{id: len(st.recs), vars: map[string]any{}}
		for k, v := range ctx.Bindings() {
			rec.vars[k] = v
		}
		v, err := ctx.EvaluateString(ctx.TagArgs())
		rec.target, rec.evalOK, rec.args = v, err == nil, ctx.TagArgs()
		st.recs = append(st.recs, rec)
		st.stack = append(st.stack, rec.id)
		return fmt.Sprintf("\x01%d\x02", rec.id), nil
	})
	e.RegisterTag("snapc", func(ctx render.Context) (string, error) {
		st := curSnap
		if st == nil {
			return "", nil
		}
		rec := &snapRec{id: len(st.recs), vars: map[string]any{}, inCap: true}
		for k, v := range ctx.Bindings() {
			rec.vars[k] = v
		}
		v, err := ctx.EvaluateString(ctx.TagArgs())
		rec.target, rec.evalOK, rec.args = v, err == nil, ctx.TagArgs()
		st.recs = append(st.recs, rec)
		return "", nil
	})
	e.RegisterTag("mark", func(ctx render.Context) (string, error) {
		st := curSnap
		if st == nil || len(st.stack) == 0 {
			return "", nil
		}
		id := st.stack[len(st.stack)-1]
		st.stack = st.stack[:len(st.stack)-1]
		st.recs[id].closed = true
		return fmt.Sprintf("\x03%d\x04", id), nil
	})
}

var markerRe = regexp.MustCompile("[\x01\x03][0-9]+[\x02\x04]")

func stripMarkers(s string) string {
	if strings.IndexAny(s, "\x01\x03") < 0 {
		return s // (outputs can be megabytes long: no regexp over them unless a marker is there)
	}
	var sb strings.Builder
	for len(s) > 0 {
		i := strings.IndexAny(s, "\x01\x03")
		if i < 0 {
			sb.WriteString(s)
			break
		}
		sb.WriteString(s[:i])
		s = s[i:]
		if loc := markerRe.FindStringIndex(s[:min(len(s), 16)]); loc != nil && loc[0] == 0 {
			s = s[loc[1]:]
		} else {
			sb.WriteByte(s[0])
			s = s[1:]
		}
	}
	return sb.String()
}

// segment extracts the output between snap id and its mark.
func segment(out string, id int) (string, bool) {
	a := fmt.Sprintf("\x01%d\x02", id)
	b := fmt.Sprintf("\x03%d\x04", id)
	i := strings.Index(out, a)
	if i < 0 {
		return "", false
	}
	j := strings.Index(out[i:], b)
	if j < 0 {
		return "", false
	}
	return out[i+len(a) : i+j], true
}

// ---- execution ----

type c14Run struct {
	cs        *C14Case
	dir       string // case directory
	rootAbs   string // of the root currently being rendered
	rootDir   string
	other     *liquid.Engine
	roots0dir string
	oldwd     string
	roots     [2]struct {
		abs, dir string
		tpl      *liquid.Template
		tree     []*TNode
	}
	cur int
	eng *liquid.Engine
	tpl *liquid.Template
	b   map[string]any
	// disk/cache model
	onDisk  map[string]string // abs path -> content currently on disk
	cache   map[string]string // abs path -> cached content
	special map[string]int    // abs path -> stDir / stNotDir
}

func (x *c14Run) abs(rel string) string { return filepath.Join(x.rootDir, rel) }

// parse parses a template the way the root of this case is parsed: with the current
// root's path, or with no path at all.
func (x *c14Run) parse(src string) Parsed {
	if x.cs.Pathless {
		return Parse(x.eng, src)
	}
	return ParseLoc(x.eng, src, x.rootAbs, 1)
}

// cacheKey is the path under which source for the file at absolute path p is registered.
func (x *c14Run) cacheKey(p string) string {
	if x.cs.Pathless {
		if rel, err := filepath.Rel(x.roots0dir, p); err == nil {
			return rel
		}
	}
	return p
}

// absPath maps a path the library used (relative when the root has no path) to the model's absolute path.
func (x *c14Run) absPath(p string) string {
	if !filepath.IsAbs(p) {
		return filepath.Join(x.roots0dir, p)
	}
	return p
}

func c14Setup(cs *C14Case, scratch string, tag string) (*c14Run, Res) {
	cs.Cfg.apply()
	wrapIncludes = true
	x := &c14Run{cs: cs, onDisk: map[string]string{}, cache: map[string]string{}, special: map[string]int{}}
	x.dir = filepath.Join(scratch, "fsroot", fmt.Sprintf("p%d", os.Getpid()), tag)
	os.RemoveAll(x.dir)
	x.rootAbs = filepath.Join(x.dir, cs.RootRel)
	x.rootDir = filepath.Dir(x.rootAbs)
	x.roots0dir = x.rootDir
	if err := os.MkdirAll(x.rootDir, 0o755); err != nil {
		fatal("mkdir: %v", err)
	}
	if cs.Pathless {
		x.oldwd, _ = os.Getwd()
		if err := os.Chdir(x.rootDir); err != nil {
			fatal("chdir: %v", err)
		}
	}
	x.eng = NewEngine(cs.Cfg)
	registerSnap(x.eng)
	// refinc: the reference implementation of include, used in place of the include tag:
	// evaluate the argument, let the harness's disk/cache MODEL choose the content, render
	// that content directly with the current variables, hand back one string.
	x.eng.RegisterTag("refinc", func(ctx render.Context) (string, error) {
		v, err := ctx.EvaluateString(ctx.TagArgs())
		if err != nil {
			return "", err
		}
		target, ok := v.(string)
		if !ok {
			return "", ctx.Errorf("refinc: non-string argument")
		}
		kind, src := x.choose(x.abs(target), nil)
		if kind != "content" {
			return "", ctx.Errorf("refinc: %s unresolvable or ambiguous", target)
		}
		vars := map[string]any{}
		for k, val := range ctx.Bindings() {
			vars[k] = val
		}
		p := x.parse(src)
		if p.T == nil {
			return "", ctx.Errorf("refinc: %s", p.Err.Err)
		}
		out, rerr := p.T.Render(vars)
		if rerr != nil {
			return "", rerr
		}
		return string(out), nil
	})
	x.eng.RegisterFilter("pathof", func(s string) string { return s })
	x.eng.RegisterFilter("bytesof", func(s string) []byte { return []byte(s) })
	// another engine of the same process registers OTHER source for the same paths and
	// defines the same filter name differently
	x.other = NewEngine(cs.Cfg)
	registerSnap(x.other)
	x.other.RegisterFilter("pathof", func(s string) string { return "other-engine/" + s })
	x.other.RegisterFilter("bytesof", func(s string) []byte { return []byte("other-engine/" + s) })
	x.b = cs.Env.Build(nil)
	type placed struct {
		f *C14File
		p string
	}
	var all []placed
	for _, f := range cs.Files {
		all = append(all, placed{f, x.abs(f.Rel)})
	}
	if cs.Root2 != nil {
		d2 := filepath.Dir(filepath.Join(x.dir, cs.Root2Rel))
		os.MkdirAll(d2, 0o755)
		for _, f := range cs.Files2 {
			all = append(all, placed{f, filepath.Join(d2, f.Rel)})
		}
	}
	for _, pl := range all {
		f, p := pl.f, pl.p
		content, alt := Source(f.Tree), Source(f.Alt)
		cacheIt := func(src string) Res {
			return guard(func() Res {
				if _, err := x.eng.ParseTemplateAndCache([]byte(src), x.cacheKey(p), 1); err != nil {
					return errRes(err, "parse")
				}
				x.cache[p] = src
				return Res{OK: true}
			})
		}
		var r Res = Res{OK: true}
		switch f.State {
		case stDisk:
			x.writeFile(p, content)
		case stCache:
			r = cacheIt(content)
		case stBoth:
			x.writeFile(p, content)
			r = cacheIt(alt)
		case stMissing:
		case stDir:
			os.MkdirAll(p, 0o755)
			x.special[p] = stDir
			if f.Cached {
				r = cacheIt(alt)
			}
		case stNotDir:
			os.MkdirAll(filepath.Dir(filepath.Dir(p)), 0o755)
			os.WriteFile(filepath.Dir(p), []byte("not a directory"), 0o644)
			x.special[p] = stNotDir
			if f.Cached {
				r = cacheIt(alt)
			}
		}
		if !r.OK {
			return nil, r
		}
	}
	for _, pl := range all {
		p := pl.p
		guard(func() Res {
			x.other.ParseTemplateAndCache([]byte("[source registered with ANOTHER engine]"), x.cacheKey(p), 1)
			return Res{}
		})
	}
	includeMode = 0
	src := Source(cs.Root)
	// ... and the other engine renders this root first (whatever the process remembers per
	// argument text then comes from the other engine)
	guard(func() Res {
		if t, err := x.other.ParseTemplateLocation([]byte(src), x.rootAbs, 1); err == nil {
			t.Render(x.b)
		}
		return Res{}
	})
	p := x.parse(src)
	if p.T == nil {
		// does the same root parse once its include tags are taken out? Then an
		// include tag with a well-formed argument expression was rejected.
		x.roots[0].tree = cs.Root
		if q := x.parse(Source(stripIncludes(cs.Root))); q.T != nil && p.Err.Panic == "" {
			p.Err.Stage = "include-rejected"
		}
		return nil, p.Err
	}
	x.tpl = p.T
	x.roots[0].abs, x.roots[0].dir, x.roots[0].tpl, x.roots[0].tree = x.rootAbs, x.rootDir, p.T, cs.Root
	if cs.Root2 != nil {
		a2 := filepath.Join(x.dir, cs.Root2Rel)
		p2 := ParseLoc(x.eng, Source(cs.Root2), a2, 1)
		if p2.T == nil {
			return nil, p2.Err
		}
		x.roots[1].abs, x.roots[1].dir, x.roots[1].tpl, x.roots[1].tree = a2, filepath.Dir(a2), p2.T, cs.Root2
	}
	return x, Res{OK: true}
}

// switchRoot makes the other root the one being rendered.
func (x *c14Run) switchRoot() {
	if x.roots[1].tpl == nil {
		return
	}
	x.cur = 1 - x.cur
	r := x.roots[x.cur]
	x.rootAbs, x.rootDir, x.tpl = r.abs, r.dir, r.tpl
}

func (x *c14Run) writeFile(p, content string) {
	os.MkdirAll(filepath.Dir(p), 0o755)
	if err := os.WriteFile(p, []byte(content), 0o644); err != nil {
		fatal("write %s: %v", p, err)
	}
	x.onDisk[p] = content
}

func (x *c14Run) cleanup() {
	if x.oldwd != "" {
		os.Chdir(x.oldwd)
	}
	os.RemoveAll(x.dir)
}

// choose: what the model says include of abs path p must render.
// kind: "content" (src), "error", or "either" (error or src).
func (x *c14Run) choose(p string, unreadable map[string]bool) (kind, src string) {
	if unreadable[p] {
		if c, ok := x.cache[p]; ok {
			return "either", c
		}
		return "error", ""
	}
	if c, ok := x.onDisk[p]; ok {
		return "content", c
	}
	if _, ok := x.special[p]; ok {
		if c, ok := x.cache[p]; ok {
			return "either", c
		}
		return "error", ""
	}
	if c, ok := x.cache[p]; ok {
		return "content", c
	}
	return "error", ""
}

type c14Out struct {
	res    Res
	snaps  *snapState
	fs     []simrt.FSCall
	clause string
	detail string
}

func (x *c14Run) mainRender(fault map[int]error) c14Out { return x.mainRender2(fault, nil) }

func (x *c14Run) mainRender2(fault map[int]error, pathFault map[string]error) c14Out {
	simrt.SetMapOrder(simrt.OrderAsc, 0)
	simrt.SetClock(t0)
	st := &snapState{}
	curSnap = st
	if pathFault != nil {
		simrt.FSBeginPath(pathFault)
	} else {
		simrt.FSBegin(fault)
	}
	res := Run(EPRender, x.eng, x.tpl, "", x.b, nil)
	fs := simrt.FSEnd()
	curSnap = nil
	return c14Out{res: res, snaps: st, fs: fs}
}

// direct renders content "directly" with the recorded bindings.
func (x *c14Run) direct(src string, vars map[string]any) Res {
	p := x.parse(src)
	if p.T == nil {
		return p.Err
	}
	curSnap = &snapState{}
	defer func() { curSnap = nil }()
	return Run(EPRender, x.eng, p.T, "", vars, nil)
}

// judge applies the oracle to a main render. unreadable: paths whose read was
// made to fail by an injected fault in this execution.
func (x *c14Run) judge(o *c14Out, unreadable map[string]bool) {
	res := o.res
	if res.Panic != "" {
		o.clause, o.detail = "no-panic", fmt.Sprintf("render panicked: %q at %s", res.Panic, res.Frame)
		return
	}
	if !res.OK && res.Out != "" {
		o.clause, o.detail = "no-output-on-error", fmt.Sprintf("Render returned an error and %d bytes of output", len(res.Out))
		return
	}
	// expectation per executed include
	mustFail := ""
	mayFail := false
	for ri, rec := range o.snaps.recs {
		if rec.inCap {
			// an include inside a capture: it completed iff anything was recorded after it
			// or the render succeeded; only when it is the last thing reached by a failed
			// render can it be what failed
			if res.OK || ri != len(o.snaps.recs)-1 {
				continue
			}
			target, isStr := rec.target.(string)
			if !rec.evalOK || !isStr {
				mustFail = "include argument inside a capture is not a string"
				break
			}
			kind, src := x.choose(x.abs(target), unreadable)
			if kind == "error" {
				mustFail = "unresolvable include " + target + " inside a capture"
			} else if kind == "either" {
				mayFail = true
			} else if exp := x.direct(src, rec.vars); !exp.OK {
				mayFail = true
			}
			break
		}
		target, isStr := rec.target.(string)
		if want, known := x.cs.ArgTargets[rec.args]; known {
			// the harness knows what this expression denotes; the engine's own evaluation
			// of it is not trusted as the reference
			if !rec.evalOK || !isStr || target != want {
				if rec.closed || res.OK {
					continue // evaluated differently only inside the snap tag; judged by what include did
				}
				o.clause, o.detail = "include-argument-is-its-string-value", fmt.Sprintf("include argument %s denotes the string %q, but the engine evaluates it to %v (%T) and the render fails with %s", rec.args, want, rec.target, rec.target, res.Err)
				return
			}
		}
		if !rec.evalOK {
			mustFail = "include argument does not evaluate"
			break
		}
		if !isStr {
			mustFail = fmt.Sprintf("non-string include argument %v", rec.target)
			if !rec.closed {
				break
			}
			o.clause, o.detail = "non-string-argument-fails", fmt.Sprintf("include of non-string %v did not fail the render", rec.target)
			return
		}
		p := x.abs(target)
		kind, src := x.choose(p, unreadable)
		if kind == "error" {
			if rec.closed {
				o.clause, o.detail = "missing-file-fails", fmt.Sprintf("include %q (%s: no readable file, not cached) did not fail the render", target, p)
				return
			}
			mustFail = "unresolvable include " + target
			break
		}
		if kind == "either" && !rec.closed {
			mayFail = true // unreadable but cached: the error is an accepted outcome
			break
		}
		exp := x.direct(src, rec.vars)
		if exp.Panic != "" {
			if !rec.closed {
				mayFail = true
				break
			}
			continue // a C01 matter, not evidence about include
		}
		if !rec.closed {
			// the include did not complete: legitimate iff rendering its content fails
			if !exp.OK {
				mustFail = "error inside included template " + target
				break
			}
			if res.OK {
				continue // marker lost (e.g. inside a capture that was filtered); nothing to compare
			}
			o.clause, o.detail = "include-renders-content", fmt.Sprintf("render failed (%s) inside include %q although rendering that file's content directly with the same variables succeeds", res.Err, target)
			return
		}
		if !exp.OK {
			o.clause, o.detail = "included-error-fails", fmt.Sprintf("include %q completed although rendering its content directly fails with %s", target, exp.Err)
			return
		}
		if res.OK {
			seg, ok := segment(res.Out, rec.id)
			if !ok {
				continue
			}
			got, want := stripMarkers(seg), stripMarkers(exp.Out)
			if got != want {
				alt := ""
				if kind == "content" {
					if c, ok := x.cache[p]; ok && c != src {
						if a := x.direct(c, rec.vars); a.OK && stripMarkers(a.Out) == got {
							alt = " (it equals the CACHED source although a file exists on disk)"
						}
					}
				}
				o.clause = "include-inserts-direct-render"
				o.detail = fmt.Sprintf("include %q inserted %q but rendering the selected content (%s) directly with the includer's current variables gives %q%s", target, clip(got), x.whichSource(p), clip(want), alt)
				return
			}
		}
	}
	if mustFail != "" && res.OK {
		o.clause, o.detail = "error-propagates", fmt.Sprintf("render succeeded although %s", mustFail)
		return
	}
	if mustFail == "" && !mayFail && !res.OK {
		// failure not explained by any include: compare with the root rendered without includes
		if !x.failsWithoutIncludes() {
			o.clause, o.detail = "no-spurious-failure", fmt.Sprintf("render failed with %q although every executed include is resolvable and renders", res.Err)
		}
	}
}

// withoutFile renders fault-free with path p moved out of the way.
func (x *c14Run) withoutFile(p string) Res {
	victim := p
	if x.special[p] == stNotDir {
		victim = filepath.Dir(p)
	}
	moved := false
	if _, err := os.Lstat(victim); err == nil {
		if err := os.Rename(victim, victim+".away"); err != nil {
			fatal("rename: %v", err)
		}
		moved = true
	}
	o := x.mainRender(nil)
	if moved {
		if err := os.Rename(victim+".away", victim); err != nil {
			fatal("rename back: %v", err)
		}
	}
	return o.res
}

func plainKey(r Res) string {
	return fmt.Sprintf("ok=%v|out=%q|panic=%v", r.OK, stripMarkers(r.Out), r.Panic != "")
}

// judgeFault applies the oracle to a render whose file-system call reading
// path p failed with errno en. absent: the fault-free result with p absent.
func (x *c14Run) judgeFault(o *c14Out, p, en string, absent Res, exact bool) {
	res := o.res
	_, cached := x.cache[p]
	switch {
	case !exact && cached && res.Panic == "" && (res.OK || res.Out == ""):
		// a single failed read among several of the same path: which reads saw
		// the file is not modelled; only the clauses above/below that do not
		// depend on it are checked
	case res.Panic != "":
		o.clause, o.detail = "no-panic", fmt.Sprintf("render panicked when reading %s failed with %s: %q at %s", filepath.Base(p), en, res.Panic, res.Frame)
	case !res.OK && res.Out != "":
		o.clause, o.detail = "no-output-on-error", fmt.Sprintf("Render returned an error and %d bytes of output", len(res.Out))
	case !cached && res.OK:
		o.clause, o.detail = "read-error-fails", fmt.Sprintf("reading the include target %s failed with %s and nothing is cached for it, yet the render succeeded with %q", filepath.Base(p), en, clip(stripMarkers(res.Out)))
	case cached && en != "ENOENT" && res.OK && x.isFile(p) && exact:
		o.clause, o.detail = "file-on-disk-takes-precedence", fmt.Sprintf("%s exists on disk as a regular file but reading it failed with %s; the render succeeded with %s: cached source was used although a file on disk takes precedence over it", filepath.Base(p), en, clip(plainKey(res)))
	case cached && en == "ENOENT" && plainKey(res) != plainKey(absent):
		o.clause, o.detail = "cache-used-when-no-file", fmt.Sprintf("the read of %s reported that no such file exists and source is cached for it; expected the result of rendering with the file absent (%s) but got %s err=%q", filepath.Base(p), clip(plainKey(absent)), clip(plainKey(res)), res.Err)
	case cached && res.OK && plainKey(res) != plainKey(absent):
		o.clause, o.detail = "unreadable-cached-is-error-or-cache", fmt.Sprintf("reading %s failed with %s; the render succeeded with %s, which is not what rendering the cached source gives (%s)", filepath.Base(p), en, clip(plainKey(res)), clip(plainKey(absent)))
	}
}

func (x *c14Run) isFile(p string) bool { _, ok := x.onDisk[p]; return ok }

func (x *c14Run) whichSource(p string) string {
	if _, ok := x.onDisk[p]; ok {
		return "disk file"
	}
	return "cached source"
}

// stripIncludes returns the tree without its include tags.
func stripIncludes(ns []*TNode) []*TNode {
	var out []*TNode
	for _, n := range ns {
		if n.K == "tag" && strings.HasPrefix(n.S, "include ") {
			continue
		}
		c := *n
		c.C = stripIncludes(n.C)
		c.Cl = nil
		for _, cl := range n.Cl {
			cc := *cl
			cc.C = stripIncludes(cl.C)
			c.Cl = append(c.Cl, &cc)
		}
		out = append(out, &c)
	}
	return out
}

func (x *c14Run) failsWithoutIncludes() bool {
	p := x.parse(Source(stripIncludes(x.roots[x.cur].tree)))
	if p.T == nil {
		return true
	}
	r := Run(EPRender, x.eng, p.T, "", x.b, nil)
	return !r.OK
}

// bareVsReference renders the current root twice without sentinels: once with its
// include tags, once with each include replaced by refinc. Both put one string in
// the same place, so the outputs must be identical whenever the reference succeeds.
func (x *c14Run) bareVsReference() *c14Out {
	simrt.SetMapOrder(simrt.OrderAsc, 0)
	simrt.SetClock(t0)
	curSnap = nil
	tree := x.roots[x.cur].tree
	render := func(mode int) Res {
		includeMode = mode
		src := Source(tree)
		includeMode = 0
		p := x.parse(src)
		if p.T == nil {
			return p.Err
		}
		return Run(EPRender, x.eng, p.T, "", x.b, nil)
	}
	ref := render(2)
	if !ref.OK {
		return nil // the reference refuses (unresolvable / ambiguous target, error inside): judged by the sentinel oracle
	}
	got := render(1)
	o := &c14Out{res: got}
	if got.Panic == "" && got.Key() != ref.Key() {
		o.clause, o.detail = "include-equals-reference", fmt.Sprintf("the root rendered with its include tags gives %s; with each include replaced by a tag that renders the selected content directly and returns it as one string, it gives %s", clip(got.Key()), clip(ref.Key()))
	}
	return o
}

// concurrent runs two tasks that render the current root at the same time.
func (x *c14Run) concurrent(r *Rng) *c14Out {
	simrt.SetMapOrder(simrt.OrderAsc, 0)
	simrt.SetClock(t0)
	curSnap = nil
	before := simrt.Steps
	lone := Run(EPRender, x.eng, x.tpl, "", x.b, nil)
	steps := int64(simrt.Steps - before)
	if lone.Panic != "" {
		return nil
	}
	var res [2]Res
	fns := []func(){
		func() { res[0] = Run(EPRender, x.eng, x.tpl, "", x.b, nil) },
		func() { res[1] = Run(EPRender, x.eng, x.tpl, "", x.b, nil) },
	}
	q := int64(pick(r, []int{3, 20, 150, 1000}))
	rr := simrt.RunTasks(fns, []int64{steps*50 + 10000, steps*50 + 10000}, func(run []int, last int, _ uint32) (int, int64) {
		return run[r.Intn(len(run))], 1 + int64(r.U64()%uint64(q))
	})
	o := &c14Out{res: lone}
	switch {
	case rr.Deadlock || len(rr.Overrun) > 0:
		o.clause, o.detail = "concurrent-include", "two concurrent renders of the root did not both finish (deadlock or step budget exceeded)"
	case res[0].Key() != lone.Key() || res[1].Key() != lone.Key():
		o.clause, o.detail = "concurrent-include", fmt.Sprintf("two concurrent renders of the root give %s and %s; a lone render gives %s", clip(res[0].Key()), clip(res[1].Key()), clip(lone.Key()))
	}
	return o
}

func firstRead(fs []simrt.FSCall, p string) int {
	for i, c := range fs {
		if c.Path == p {
			return i
		}
	}
	return -1
}

var errnos = []struct {
	name string
	err  error
}{{"EIO", syscall.EIO}, {"EACCES", syscall.EACCES}, {"EMFILE", syscall.EMFILE}, {"ENOENT", syscall.ENOENT}}

type c14Fail struct {
	clause, detail, sig string
	j                   int
	errno               string
	step                int
}

func (x *c14Run) applyStep(s C14Step) {
	if s.Op == "switch-root" {
		x.switchRoot()
		return
	}
	f := x.cs.Files[s.File]
	p := filepath.Join(x.roots[0].dir, f.Rel)
	switch s.Op {
	case "reregister-bad":
		// a registration that fails to parse must leave an earlier registration alone
		guard(func() Res {
			x.eng.ParseTemplateAndCache([]byte(dTL+" if "+dTR+" unterminated"), x.cacheKey(p), 1)
			return Res{}
		})
		return
	case "reregister-good":
		src := Source(f.Alt) + "<re-registered>"
		r := guard(func() Res {
			if _, err := x.eng.ParseTemplateAndCache([]byte(src), x.cacheKey(p), 1); err != nil {
				return errRes(err, "parse")
			}
			return Res{OK: true}
		})
		if r.OK {
			x.cache[p] = src
		}
		return
	}
	if _, sp := x.special[p]; sp {
		return
	}
	switch s.Op {
	case "create", "replace":
		if _, statErr := os.Stat(filepath.Dir(p)); statErr != nil {
			if os.MkdirAll(filepath.Dir(p), 0o755) != nil {
				return
			}
		}
		content := Source(f.Tree) + fmt.Sprintf("<rev %s>", s.Op)
		if _, ok := x.onDisk[p]; ok && s.Op == "create" {
			return
		}
		x.writeFile(p, content)
	case "delete":
		if _, ok := x.onDisk[p]; ok {
			os.Remove(p)
			delete(x.onDisk, p)
		}
	}
}

// c14Find runs the initial render, the fault enumeration and the history.
func c14Find(c *Ctx, cs *C14Case, scratch, tag string, out *CaseOut, wantSig string) []c14Fail {
	x, pres := c14Setup(cs, scratch, tag)
	if x == nil {
		if c != nil {
			c.logf("setup: %s", pres.Key())
		}
		if pres.Panic != "" {
			out.Discarded = true
		}
		if pres.Stage == "include-rejected" && (wantSig == "" || wantSig == "include-argument-accepted") {
			os.RemoveAll(filepath.Join(scratch, "fsroot", fmt.Sprintf("p%d", os.Getpid()), tag))
			return []c14Fail{{clause: "include-argument-accepted", sig: "include-argument-accepted", j: -1,
				detail: fmt.Sprintf("the root template is rejected (%s) although it parses once its include tags are removed: an include tag with a well-formed argument expression is not accepted", pres.Err)}}
		}
		os.RemoveAll(filepath.Join(scratch, "fsroot", fmt.Sprintf("p%d", os.Getpid()), tag))
		return nil
	}
	defer x.cleanup()
	var fails []c14Fail
	seen := map[string]bool{}
	if cs.Loop != nil && (wantSig == "" || wantSig == "include-equals-inlined") {
		if f := c14Inline(c, cs, scratch, tag, out); f != nil {
			seen[f.sig] = true
			fails = append(fails, *f)
			if wantSig != "" {
				return fails
			}
		}
		wrapIncludes, includeMode = true, 0
	}
	record := func(o *c14Out, j int, errno string, step int) bool {
		if o.clause == "" {
			return false
		}
		sig := o.clause
		if seen[sig] || (wantSig != "" && sig != wantSig) {
			return false
		}
		seen[sig] = true
		fails = append(fails, c14Fail{clause: o.clause, detail: o.detail, sig: sig, j: j, errno: errno, step: step})
		return wantSig != ""
	}
	src := Source(cs.Root)
	hashBase := ""
	if c != nil {
		hashBase = src + Snapshot(cs.Files)
	}
	runOnce := func(step int) bool {
		base := x.mainRender(nil)
		x.judge(&base, nil)
		out.Evals++
		if c != nil {
			c.logf("step %d base: %s fs=%d snaps=%d clause=%s", step, base.res.Key(), len(base.fs), len(base.snaps.recs), base.clause)
			c.count("fs_calls", int64(len(base.fs)))
			c.count("includes_executed", int64(len(base.snaps.recs)))
			if len(base.snaps.recs) > 0 {
				out.Hashes = append(out.Hashes, hashStr(hashBase, fmt.Sprint(step, "base")))
			}
			for _, rec := range base.snaps.recs {
				if t, ok := rec.target.(string); ok {
					k, _ := x.choose(x.abs(t), nil)
					st := "uncached-missing"
					if _, d := x.onDisk[x.abs(t)]; d {
						st = "disk"
						if _, cc := x.cache[x.abs(t)]; cc {
							st = "disk-shadows-cache"
						}
					} else if _, cc := x.cache[x.abs(t)]; cc {
						st = "cache"
					}
					c.count("include:"+st+":"+k, 1)
				} else {
					c.count("include:non-string", 1)
				}
			}
		}
		if len(base.res.Out) > 32<<20 {
			// a multi-megabyte file included from inside loops: hundreds of megabytes per render.
			// Nothing is wrong with that, but every further execution of this case would cost
			// seconds: no verdict for the rest of the case (deterministic; counted)
			if c != nil {
				c.count("output_over_32MiB_case_cut_short", 1)
			}
			return true
		}
		if base.res.Panic != "" {
			// the fault-free render panics: a C01 matter; nothing about include can be judged
			if step == 0 {
				out.Discarded = true
				return true
			}
			return false
		}
		if record(&base, -1, "", step) {
			return true
		}
		if len(base.res.Out) > 4<<20 {
			// megabytes per render: the fault-free render has been judged; the fault enumeration
			// and the rest of the history would cost minutes (deterministic; counted)
			if c != nil {
				c.count("output_over_4MiB_fault_enumeration_skipped", 1)
			}
			return true
		}
		// fault enumeration over every file-system call of this render
		absent := map[string]Res{}
		reads := map[string]int{}
		for _, call := range base.fs {
			reads[x.absPath(call.Path)]++
		}
		spent := 0 // bytes of output rendered by the faulted executions of this render
		for j := -len(base.fs); j < len(base.fs); j++ {
			// j<0: path-sticky fault on the path of call -j-1 (every read of it fails);
			// j>=0: only call j fails.
			if spent > 96<<20 {
				// a byte budget per render (the graphs with multi-megabyte files): the rest of
				// the file-system calls of this render go without a fault; deterministic
				if c != nil {
					c.count("fault_enumeration_cut_short_by_byte_budget", 1)
				}
				break
			}
			ci := j
			if j < 0 {
				ci = -j - 1
			}
			p := x.absPath(base.fs[ci].Path)
			if j < 0 && (reads[p] < 2 || firstRead(base.fs, base.fs[ci].Path) != ci) {
				continue // a path read once is covered exactly by its per-call fault
			}
			if _, ok := absent[p]; !ok {
				absent[p] = x.withoutFile(p)
			}
			if absent[p].Panic != "" {
				continue
			}
			for _, en := range errnos {
				var o c14Out
				if j < 0 {
					o = x.mainRender2(nil, map[string]error{base.fs[ci].Path: en.err})
				} else {
					o = x.mainRender(map[int]error{j: en.err})
				}
				spent += len(o.res.Out) + 1
				if len(o.res.Out) > 4<<20 {
					if c != nil {
						c.count("output_over_4MiB_faulted_execution_case_cut_short", 1)
					}
					return true // (see above: no verdict for the rest of this case)
				}
				fired := false
				exact := true // every read of p in THIS execution failed: "p absent" is the exact reference
				for _, call := range o.fs {
					if call.Injected {
						fired = true
					} else if x.absPath(call.Path) == p {
						exact = false
					}
				}
				x.judgeFault(&o, p, en.name, absent[p], exact)
				out.Evals++
				if c != nil {
					c.logf("step %d fault j=%d %s: %s clause=%s", step, j, en.name, o.res.Key(), o.clause)
					if fired {
						c.count("fault:fs_"+en.name, 1)
						out.Hashes = append(out.Hashes, hashStr(hashBase, fmt.Sprint(step, j, en.name)))
					}
				}
				if record(&o, j, en.name, step) {
					return true
				}
			}
		}
		return false
	}
	if runOnce(0) {
		return fails
	}
	// Same root, no sentinels: the include tag against the reference tag in the same place
	// (this is where trim markers adjacent to an include are exercised).
	if o := x.bareVsReference(); o != nil {
		out.Evals += 2
		if record(o, -1, "", 0) {
			return fails
		}
	}
	// Two caller tasks render the root concurrently under a seeded schedule (snap/mark
	// off): each must get what a lone render gives. Include is the only tag that
	// re-enters the engine (read, compile, render) in the middle of a render.
	if o := x.concurrent(NewRng(strSeed(src), 14)); o != nil {
		out.Evals++
		if c != nil {
			c.count("fault:preemption_runs", 1)
		}
		if record(o, -1, "", 0) {
			return fails
		}
	}
	for i, s := range cs.History {
		x.applyStep(s)
		if c != nil {
			c.count("fault:disk_"+s.Op, 1)
		}
		if runOnce(i + 1) {
			return fails
		}
	}
	return fails
}

func countText(ns []*TNode) int {
	n := 0
	for _, t := range ns {
		n += len(t.S) + countText(t.C)
	}
	return n
}

func (ck c14) RunCase(c *Ctx, idx int) *CaseOut {
	vecs := c14QuickVec
	if c.Tier == "thorough" {
		vecs = c14ThoroughVec
	}
	r := NewRng(c.Seed, strSeed("C14"), uint64(idx))
	wrapIncludes = true // also consulted by the generator: must not depend on what ran before
	cs := genC14(c.Seed, r, idx, vecs)
	wrapIncludes = true
	cs.Source = Source(cs.Root)
	if os.Getenv("VERIF_DEBUG_CASE") != "" { // debugging aid
		fmt.Fprintf(os.Stderr, "case %d root %q\n", idx, clip(cs.Source))
		for _, f := range cs.Files {
			fmt.Fprintf(os.Stderr, "  file %q state %s size %d: %q\n", f.Rel, stNames[f.State], countText(f.Tree), clip(Source(f.Tree)))
		}
		fmt.Fprintf(os.Stderr, "  history %v loop=%v\n", cs.History, cs.Loop != nil)
	}
	out := &CaseOut{}
	tag := fmt.Sprintf("c%d", idx)
	fails := c14Find(c, cs, c.Scratch, tag, out, "")
	u := map[string]bool{}
	constructs(cs.Root, u)
	for k := range u {
		c.count("use:"+k, 1)
	}
	for _, f := range cs.Files {
		c.count("state:"+stNames[f.State], 1)
		if n := countText(f.Tree); n > 1<<20 {
			c.count("include_files_over_1MiB", 1)
		} else if n > 4<<10 {
			c.count("include_files_over_4KiB", 1)
		}
	}
	for _, f := range fails {
		out.Violations = append(out.Violations, c14Violation(c, cs, f, idx))
	}
	out.Digest = c.takeDigest()
	if idx%211 == 0 {
		fs := []map[string]any{}
		for _, f := range cs.Files {
			fs = append(fs, map[string]any{"rel": f.Rel, "state": stNames[f.State], "content": clip(Source(f.Tree))})
		}
		out.Sample = map[string]any{"root_path": cs.RootRel, "root": cs.Source, "files": fs, "history": cs.History}
	}
	return out
}

func c14Violation(c *Ctx, cs *C14Case, f c14Fail, idx int) *Violation {
	orig := *cs
	orig.FaultJ, orig.FaultErrno, orig.AtStep = f.j, f.errno, f.step
	ob, _ := json.Marshal(orig)
	if !c.mayMinimise(f.sig) {
		return &Violation{Property: c.Prop, Clause: f.clause, Detail: f.detail, Signature: f.sig, Seed: c.Seed, Index: idx, Case: ob}
	}
	deadline := time.Now().Add(20 * time.Second)
	cur := orig
	n := 0
	test := func(cand *C14Case) (c14Fail, bool) {
		n++
		o := &CaseOut{}
		fs := c14Find(nil, cand, c.Scratch, fmt.Sprintf("min%d-%d-%d", os.Getpid(), idx, n), o, f.sig)
		if len(fs) > 0 {
			return fs[0], true
		}
		return c14Fail{}, false
	}
	// shorten the history, then the root, then file contents
	for len(cur.History) > 0 && time.Now().Before(deadline) {
		cand := cur
		cand.History = cur.History[:len(cur.History)-1]
		if _, ok := test(&cand); !ok {
			break
		}
		cur = cand
	}
	cur.Root = minimiseTree(cur.Root, deadline, func(t []*TNode) bool {
		cand := cur
		cand.Root = t
		_, ok := test(&cand)
		return ok
	})
	for i := range cur.Files {
		i := i
		files := func(t []*TNode, alt bool) []*C14File {
			fs := make([]*C14File, len(cur.Files))
			for k, ff := range cur.Files {
				cp := *ff
				fs[k] = &cp
			}
			if alt {
				fs[i].Alt = t
			} else {
				fs[i].Tree = t
			}
			return fs
		}
		nt := minimiseTree(cur.Files[i].Tree, deadline, func(t []*TNode) bool {
			cand := cur
			cand.Files = files(t, false)
			_, ok := test(&cand)
			return ok
		})
		cur.Files = files(nt, false)
		na := minimiseTree(cur.Files[i].Alt, deadline, func(t []*TNode) bool {
			cand := cur
			cand.Files = files(t, true)
			_, ok := test(&cand)
			return ok
		})
		cur.Files = files(na, true)
	}
	v := &Violation{Property: "C14", Clause: f.clause, Detail: f.detail, Signature: f.sig, Seed: c.Seed, Index: idx, Original: ob}
	if mf, ok := test(&cur); ok {
		cur.FaultJ, cur.FaultErrno, cur.AtStep = mf.j, mf.errno, mf.step
		wrapIncludes = true
		cur.Source = Source(cur.Root)
		v.Detail, v.Minimised = mf.detail, true
		v.Case, _ = json.Marshal(cur)
	} else {
		v.Case = ob
	}
	return v
}

func (ck c14) Replay(c *Ctx, v *Violation) *Violation {
	var cs C14Case
	if err := json.Unmarshal(v.Case, &cs); err != nil {
		fatal("replay: %v", err)
	}
	out := &CaseOut{}
	fails := c14Find(nil, &cs, c.Scratch, "replay", out, v.Clause)
	for _, f := range fails {
		fmt.Printf("replay: root %q step=%d fault=%d/%s -> %s: %s\n", cs.Source, f.step, f.j, f.errno, f.clause, f.detail)
		return &Violation{Property: "C14", Clause: f.clause, Detail: f.detail, Signature: f.sig}
	}
	return nil
}
