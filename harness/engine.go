package main

import (
	"bytes"
	"context"
	"crypto/sha256"
	"errors"
	"fmt"
	"io"
	"os"
	"path/filepath"
	"reflect"
	"regexp"
	"runtime"
	"strconv"
	"strings"
	"syscall"

	"github.com/osteele/liquid"
	"github.com/osteele/liquid/expressions"
	"github.com/osteele/liquid/render"
	"verif.local/simrt"
)

// EngCfg is the engine configuration of a case.
type EngCfg struct {
	Strict bool     `json:"strict,omitempty"`
	Delims []string `json:"delims,omitempty"` // objectLeft, objectRight, tagLeft, tagRight (Engine.Delims)
}

// Callback faults: the k-th invocation of a harness callback (custom tag, block,
// filter) fails -- the "crash at an arbitrary instant" of a render, as seen from the
// library: user code it called returned an error or panicked.
var cbCountdown int // 0 = off
var errCallback = errors.New("verif-injected-callback-failure")

func cbTick() error {
	if cbCountdown > 0 {
		cbCountdown--
		if cbCountdown == 0 {
			return errCallback
		}
	}
	return nil
}

// NewEngine builds an engine with the standard tags/filters plus the harness's
// own tag, block and filter (they exercise RegisterTag/RegisterBlock/RegisterFilter).
// apply makes Source() emit this configuration's delimiters.
func (c EngCfg) apply() {
	dOL, dOR, dTL, dTR = "{{", "}}", "{%", "%}"
	if len(c.Delims) == 4 {
		for i, p := range []*string{&dOL, &dOR, &dTL, &dTR} {
			if c.Delims[i] != "" {
				*p = c.Delims[i]
			}
		}
	}
}

var delimChoices = [][]string{{"[[", "]]", "[%", "%]"}, {"<<", ">>", "<?", "?>"}, {"{{", "}}", "<%", "%>"}, {"${", "}$", "{%", "%}"},
	// "an empty delimiter stands for the corresponding default" (Engine.Delims)
	{"", "", "", ""}, {"[[", "]]", "", ""}}

// genCfg draws an engine configuration.
func genCfg(r *Rng, strictP float64) EngCfg {
	c := EngCfg{Strict: r.Chance(strictP)}
	if r.Chance(0.1) {
		c.Delims = pick(r, delimChoices)
	}
	return c
}

func NewEngine(c EngCfg) *liquid.Engine {
	c.apply()
	e := liquid.NewEngine()
	if c.Strict {
		e.StrictVariables()
	}
	if len(c.Delims) == 4 {
		e.Delims(c.Delims[0], c.Delims[1], c.Delims[2], c.Delims[3])
	}
	// rfile: a custom tag that uses Context.RenderFile with an extra-bindings map it
	// keeps for the life of the engine (as a site generator's tag would)
	extras := map[string]any{"site": "example.org", "zz": "<extra-zz>"}
	e.RegisterTag("rfile", func(ctx render.Context) (string, error) {
		v, err := ctx.EvaluateString(ctx.TagArgs())
		if err != nil {
			return "", err
		}
		name, ok := v.(string)
		if !ok {
			return "", ctx.Errorf("rfile requires a string")
		}
		return ctx.RenderFile(filepath.Join(filepath.Dir(ctx.SourceFile()), name), extras)
	})
	// bset: a custom tag that defines a variable by writing into Context.Bindings()
	// (the "current lexical environment") rather than through Context.Set
	e.RegisterTag("bset", func(ctx render.Context) (string, error) {
		name := strings.TrimSpace(ctx.TagArgs())
		ctx.Bindings()["bset_"+name] = "<" + name + ">"
		return "", nil
	})
	// hwhere: a filter with an expressions.Closure parameter (the where_exp mechanism):
	// keeps the elements for which the expression, with the element bound to name, is truthy
	e.RegisterFilter("hwhere", func(a []any, name string, expr expressions.Closure) ([]any, error) {
		var out []any
		for _, item := range a {
			v, err := expr.Bind(name, item).Evaluate()
			if err != nil {
				return nil, err
			}
			if v != nil && v != false {
				out = append(out, item)
			}
		}
		return out, nil
	})
	e.RegisterTag("expand", func(ctx render.Context) (string, error) {
		s, err := ctx.ExpandTagArg()
		if err != nil {
			return "", err
		}
		return "(" + s + ")", nil
	})
	e.RegisterTag("echo", func(ctx render.Context) (string, error) {
		if err := cbTick(); err != nil {
			return "", err
		}
		v, err := ctx.EvaluateString(ctx.TagArgs())
		if err != nil {
			return "", err
		}
		return fmt.Sprint("<", v, ">"), nil
	})
	e.RegisterBlock("wrap", func(ctx render.Context) (string, error) {
		if err := cbTick(); err != nil {
			panic(err) // a block implementation that panics
		}
		s, err := ctx.InnerString()
		if err != nil {
			return "", err
		}
		return "[" + s + "]", nil
	})
	// kv builds a fresh two-entry map from its input and argument: a temporary that is
	// garbage as soon as the expression has been consumed. A collection runs first (outside
	// the scheduler, which relies on addresses not being reused during a run), so that a
	// later temporary may well get the address of an earlier one.
	e.RegisterFilter("kv", func(v any, k string) map[string]any {
		if !simrt.Scheduling() && kvGCs < 2 { // (at most two collections per library call: a collection costs milliseconds)
			kvGCs++
			runtime.GC()
		}
		return map[string]any{"k": k, "v": v}
	})
	registerHx(e, 0)
	return e
}

// registerHx registers the filter hx as a closure over a tag string. Generation 0 is what
// every engine starts with; a history may register it AGAIN under the same name with a
// sibling closure (same function literal, other captured state): templates rendered before
// must then use the new one, as a template that was never rendered does.
func registerHx(e *liquid.Engine, gen int) {
	tag := "#"
	if gen > 0 {
		tag = fmt.Sprintf("@%d", gen)
	}
	e.RegisterFilter("hx", func(s string) (string, error) {
		if err := cbTick(); err != nil {
			return "", err
		}
		return tag + s + tag, nil
	})
}

// Res is everything observable about one call.
type Res struct {
	OK    bool   `json:"ok"`
	Out   string `json:"out"`
	Err   string `json:"err,omitempty"`
	Path  string `json:"path,omitempty"`
	Line  int    `json:"line,omitempty"`
	Panic string `json:"panic,omitempty"`
	Frame string `json:"frame,omitempty"` // innermost repository frame of a panic
	Stage string `json:"stage,omitempty"` // "parse" if the error came from parsing
	raw   error
	bytes []byte // the []byte a Render/ParseAndRender call returned, kept un-copied
}

// Intact reports whether the []byte the call returned still holds what it held
// when the call returned (it must: a returned result is the caller's).
func (r Res) Intact() bool { return r.bytes == nil || string(r.bytes) == r.Out }

func (r Res) Key() string {
	return fmt.Sprintf("ok=%v|out=%s|err=%q|path=%q|line=%d|panic=%q|stage=%s", r.OK, quoteBig(r.Out), r.Err, r.Path, r.Line, r.Panic, r.Stage)
}

// quoteBig quotes s; an output of more than 64 KiB is given as its first 200 bytes, its
// length and a 128-bit digest of the whole (equal keys still mean equal outputs).
func quoteBig(s string) string {
	if len(s) <= 64<<10 {
		return strconv.Quote(s)
	}
	h := sha256.Sum256([]byte(s))
	return fmt.Sprintf("%q...(%d bytes, sha256 %x)", s[:200], len(s), h[:16])
}

// KeyNoLoc ignores Path/Line (different parse locations).
func (r Res) KeyNoLoc() string {
	return fmt.Sprintf("ok=%v|out=%s|err=%q|panic=%q", r.OK, quoteBig(r.Out), r.Err, r.Panic)
}

var scratchRoot string // replaced by a token in error text

// scrubAddrs: replace heap addresses in error text by a token. On for every
// check except C02, whose subject includes address-dependence of the output.
var scrubAddrs = true
var addrRe = regexp.MustCompile(`0xc[0-9a-f]{9}`)

var scrubPid = fmt.Sprintf("/fsroot/p%d/", os.Getpid())

func scrub(s string) string {
	if strings.Contains(s, scrubPid) {
		s = strings.ReplaceAll(s, scrubPid, "/fsroot/")
	}
	if scratchRoot != "" {
		s = strings.ReplaceAll(s, scratchRoot, "$SCRATCH")
	}
	if scrubAddrs && strings.Contains(s, "0xc") {
		s = addrRe.ReplaceAllString(s, "0xADDR")
	}
	return s
}

func repoFrame() string {
	pcs := make([]uintptr, 64)
	n := runtime.Callers(3, pcs)
	fr := runtime.CallersFrames(pcs[:n])
	for {
		f, more := fr.Next()
		if strings.Contains(f.Function, "github.com/osteele/liquid") {
			fn := f.Function[strings.LastIndex(f.Function, "/")+1:]
			return fmt.Sprintf("%s (%s:%d)", fn, f.File[strings.LastIndex(f.File, "/")+1:], f.Line)
		}
		if !more {
			return ""
		}
	}
}

// stepFuel bounds every guarded library call (a typical render needs 10^3..10^4 steps).
const stepFuel = 200_000

// fuelOuts counts guarded calls stopped by the step fuel since the shard loop last reset
// it (guardMaxSteps: the most steps any completed call used). How many steps a render takes
// legitimately depends on the dimension a check varies -- a shuffled map walk costs more than
// a sorted one, a loop that breaks on the first match ends early under one map order and
// runs to the end under another -- so an execution that ran out of fuel says nothing about
// the others: a case in which any call was stopped by the fuel gives no verdict (counted as
// heavy_case_no_verdict), never a violation. Termination is not among the claimed properties
// (C04's progress clause has its own step budget).
var fuelOuts int
var guardMaxSteps int64

// guard runs f, converting a panic into a Res.
var kvGCs int

func guard(f func() Res) (res Res) {
	simrt.Fuel = stepFuel
	kvGCs = 0
	defer func() {
		used := stepFuel - simrt.Fuel
		simrt.Fuel = 0
		r := recover()
		if simrt.FuelOuts > 0 {
			fuelOuts += simrt.FuelOuts
			simrt.FuelOuts = 0
		} else if used > guardMaxSteps {
			guardMaxSteps = used
		}
		if r != nil {
			msg := fmt.Sprint(r)
			if i := strings.Index(msg, "\nOriginal stacktrace"); i >= 0 {
				msg = msg[:i]
			}
			res = Res{Panic: scrub(msg), Frame: repoFrame()}
		}
	}()
	res = f()
	simrt.DrainGo() // goroutines the call started and did not wait for (outside the scheduler they are queued)
	return res
}

func errRes(err liquid.SourceError, stage string) Res {
	// (a stack trace inside an ERROR's text is kept: on HEAD only panic values carry one)
	msg := err.Error()
	return Res{Err: scrub(msg), Path: scrub(err.Path()), Line: err.LineNumber(), Stage: stage, raw: err}
}

// Entry points. Each takes the engine, the source (or parsed template) and bindings.
const (
	EPRender = iota
	EPRenderString
	EPFRender
	EPParseAndRender
	EPParseAndRenderString
	EPParseAndFRender
	NumEP
)

var epNames = []string{"Render", "RenderString", "FRender", "ParseAndRender", "ParseAndRenderString", "ParseAndFRender"}

// Parsed is a parse result.
type Parsed struct {
	T   *liquid.Template
	Err Res
}

// scribble overwrites a byte slice the harness handed to the library: once a call
// has returned, the caller may reuse its buffer, so nothing the library keeps (the
// parsed template, an error it returned) may alias it.
// noScribble: reference executions (alone baselines, isolated expectations) leave the
// buffer alone, so that a library that aliases it disagrees with its own reference.
var noScribble bool

func scribble(b []byte) {
	if noScribble {
		return
	}
	for i := range b {
		b[i] = '#'
	}
}

func Parse(e *liquid.Engine, src string) (p Parsed) {
	r := guard(func() Res {
		t, err := e.ParseString(src)
		if err != nil {
			return errRes(err, "parse")
		}
		p.T = t
		return Res{OK: true}
	})
	p.Err = r
	return
}

func ParseLoc(e *liquid.Engine, src, path string, line int) (p Parsed) {
	r := guard(func() Res {
		buf := []byte(src)
		t, err := e.ParseTemplateLocation(buf, path, line)
		scribble(buf)
		if err != nil {
			return errRes(err, "parse")
		}
		p.T = t
		return Res{OK: true}
	})
	p.Err = r
	return
}

// ParseBytes parses through Engine.ParseTemplate([]byte).
func ParseBytes(e *liquid.Engine, src string) (p Parsed) {
	r := guard(func() Res {
		buf := []byte(src)
		t, err := e.ParseTemplate(buf)
		scribble(buf)
		if err != nil {
			return errRes(err, "parse")
		}
		p.T = t
		return Res{OK: true}
	})
	p.Err = r
	return
}

// sinkWriter is a plain io.Writer that is not a *bytes.Buffer (code that
// special-cases buffer destinations must still produce the same bytes).
type sinkWriter struct{ b []byte }

func (s *sinkWriter) Write(p []byte) (int, error) { s.b = append(s.b, p...); return len(p), nil }

// sinkStringWriter additionally implements io.StringWriter.
type sinkStringWriter struct{ sinkWriter }

func (s *sinkStringWriter) WriteString(x string) (int, error) {
	s.b = append(s.b, x...)
	return len(x), nil
}

// WriterKind selects the destination the FRender forms write to when the
// caller passes no writer: 0 *bytes.Buffer, 1 plain io.Writer, 2 *strings.Builder,
// 3 io.Writer+io.StringWriter.
var WriterKind int

func defaultWriter() (io.Writer, func() string) {
	switch WriterKind {
	case 1:
		s := &sinkWriter{}
		return s, func() string { return string(s.b) }
	case 2:
		s := &strings.Builder{}
		return s, s.String
	case 3:
		s := &sinkStringWriter{}
		return s, func() string { return string(s.b) }
	}
	b := new(bytes.Buffer)
	return b, b.String
}

// Run executes one entry point. For EP < EPParseAndRender tpl must be non-nil.
// w, if non-nil, is the writer for the FRender forms (default: a buffer).
func Run(ep int, e *liquid.Engine, tpl *liquid.Template, src string, b map[string]any, w io.Writer) Res {
	return guard(func() Res {
		switch ep {
		case EPRender:
			out, err := tpl.Render(b)
			if err != nil {
				return errRes(err, "")
			}
			return Res{OK: true, Out: string(out), bytes: out}
		case EPRenderString:
			out, err := tpl.RenderString(b)
			if err != nil {
				return errRes(err, "")
			}
			return Res{OK: true, Out: out}
		case EPFRender:
			var get func() string
			if w == nil {
				w, get = defaultWriter()
			}
			err := tpl.FRender(w, b)
			if err != nil {
				return errRes(err, "")
			}
			if get != nil {
				return Res{OK: true, Out: get()}
			}
			return Res{OK: true}
		case EPParseAndRender:
			out, err := e.ParseAndRender([]byte(src), b)
			if err != nil {
				return errRes(err, "")
			}
			return Res{OK: true, Out: string(out), bytes: out}
		case EPParseAndRenderString:
			out, err := e.ParseAndRenderString(src, b)
			if err != nil {
				return errRes(err, "")
			}
			return Res{OK: true, Out: out}
		case EPParseAndFRender:
			var get func() string
			if w == nil {
				w, get = defaultWriter()
			}
			err := e.ParseAndFRender(w, []byte(src), b)
			if err != nil {
				return errRes(err, "")
			}
			if get != nil {
				return Res{OK: true, Out: get()}
			}
			return Res{OK: true}
		}
		panic("bad entry point")
	})
}

// ---- fault-injecting writer ----

var errInjected = errors.New("verif-injected-write-failure-7f3a")

// FaultWriter fails on call K (0-based): it accepts Accept bytes of that call
// (clamped to a strict prefix) and returns errInjected. Sticky: every later
// call fails too, accepting nothing (closed connection). K<0: never fails.
type FaultWriter struct {
	K, Accept int
	Sticky    bool
	Err       error // the error this writer fails with (default errInjected)

	Calls     [][]byte // every Write call's argument (copied)
	Accepted  []byte   // bytes accepted up to and including the failing call
	AfterFail []byte   // bytes accepted after the failure (transient mode)
	Fired     bool
	PostCalls int // Write attempts after the failure
}

func (w *FaultWriter) fail() error {
	if w.Err != nil {
		return w.Err
	}
	return errInjected
}

func (w *FaultWriter) Write(p []byte) (int, error) {
	i := len(w.Calls)
	w.Calls = append(w.Calls, append([]byte(nil), p...))
	if w.Fired {
		w.PostCalls++
		if w.Sticky {
			return 0, w.fail()
		}
		w.AfterFail = append(w.AfterFail, p...)
		return len(p), nil
	}
	if i == w.K {
		w.Fired = true
		a := w.Accept
		if a >= len(p) {
			a = len(p) - 1
		}
		if a < 0 {
			a = 0
		}
		w.Accepted = append(w.Accepted, p[:a]...)
		return a, w.fail()
	}
	w.Accepted = append(w.Accepted, p...)
	return len(p), nil
}

// FaultStringWriter also implements io.StringWriter, the method io.WriteString
// prefers: a write that reaches the caller's writer that way must fail the same way.
type FaultStringWriter struct{ *FaultWriter }

func (w FaultStringWriter) WriteString(s string) (int, error) { return w.Write([]byte(s)) }

// carries reports whether err carries the injected failure: the writer's own
// error value must be reachable through Cause() / Unwrap() (SourceError exists to
// record "an error with a source location and optional cause"); its text merely
// being quoted in another error's message does not carry the failure.
func carries(err error) bool { return carriesErr(err, errInjected) }

// Error values a writer may fail with: besides a plain errors.New value, an error of
// an unhashable dynamic type (a slice of errors, as multi-error types are), a typed nil
// pointer whose Error method panics (the classic nil-*T-returned-as-error mistake), and
// an error that wraps another.
type multiErr []error

func (m multiErr) Error() string { return fmt.Sprintf("verif-multi-error(%d)", len(m)) }

type ptrErr struct{ msg string }

func (p *ptrErr) Error() string { return p.msg } // panics on a nil receiver

// causeErr is a pkg/errors- or juju/errors-style error: it has a Cause() method,
// which may return nil (no underlying cause) or another error.
type causeErr struct {
	msg   string
	cause error
}

func (c *causeErr) Error() string { return c.msg }
func (c *causeErr) Cause() error  { return c.cause }

var errKinds = []error{
	nil, // the default errInjected
	multiErr{errors.New("verif-inner-a"), errors.New("verif-inner-b")},
	(*ptrErr)(nil),
	&ptrErr{"verif-pointer-error"},
	fmt.Errorf("verif-wrapping: %w", errors.New("verif-wrapped")),
	&causeErr{"verif-annotated-without-cause", nil},
	&causeErr{"verif-annotated", errors.New("verif-root-cause")},
	// errors real writers fail with
	io.ErrClosedPipe, syscall.EPIPE, &os.PathError{Op: "write", Path: "|1", Err: syscall.EPIPE}, fmt.Errorf("write tcp: %w", syscall.ECONNRESET),
	io.ErrShortWrite, io.EOF, os.ErrClosed, context.Canceled, context.DeadlineExceeded, syscall.ENOSPC,
}

func sameErr(a, b error) bool {
	if a == nil || b == nil {
		return a == nil && b == nil
	}
	ta, tb := reflect.TypeOf(a), reflect.TypeOf(b)
	if ta != tb {
		return false
	}
	if !ta.Comparable() {
		va, vb := reflect.ValueOf(a), reflect.ValueOf(b)
		return va.Kind() == reflect.Slice && va.Len() == vb.Len() && va.Pointer() == vb.Pointer()
	}
	return a == b
}

func carriesErr(err, want error) bool {
	for i := 0; err != nil && i < 30; i++ {
		if sameErr(err, want) {
			return true
		}
		if c, ok := err.(interface{ Cause() error }); ok && c.Cause() != nil && c.Cause() != err {
			err = c.Cause()
			continue
		}
		err = errors.Unwrap(err)
	}
	return false
}
